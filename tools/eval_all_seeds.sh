#!/bin/bash
# Re-evaluates every stored seeded change against the current /repo HEAD and the
# current checks: the patch must still apply and the property's quick check (or
# one of the checks named in the seed's detected_by) must report a violation.
# usage: eval_all_seeds.sh [seed names...]   (default: all)   -> one line per seed
cd /verif
seeds="$@"; [ -z "$seeds" ] && seeds=$(ls seeded)
for s in $seeds; do
  prop=$(jq -r .property seeded/$s/meta.json)
  checks=$(jq -r '.detected_by[]' seeded/$s/meta.json | grep -o "^C[0-9][0-9]" | sort -u | tr '\n' ' ')
  [ -z "$checks" ] && checks=$prop
  res=""
  for c in $checks; do
    out=$(tools/eval_seed.sh /verif/seeded/$s $c 2>&1)
    if echo "$out" | grep -q "APPLY-FAILED"; then res="$res $c:APPLY-FAILED"; break; fi
    n=$(echo "$out" | grep -o "[0-9]* violations" | head -1)
    res="$res $c:${n:-?}"
    echo "$out" | grep -q "exit=1" && break
  done
  echo "$s$res"
done
