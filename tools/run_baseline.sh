#!/bin/bash
# Runs the repository's test suite (guard off) and compares with BASELINE.json's stable_pass list.
cd "${1:-/repo}"
GOFLAGS=-mod=mod GOPROXY=off GOTOOLCHAIN=auto go test -json -vet=off -count=1 -timeout 25m ./... > /tmp/baseline_run.json 2>/tmp/baseline_run.err
python3 - <<'PY'
import json
passed=set(); failed=set()
for l in open('/tmp/baseline_run.json'):
    try: e=json.loads(l)
    except Exception: continue
    if e.get('Test') and e.get('Action') in ('pass','fail'):
        k=e['Package']+'::'+e['Test']
        (passed if e['Action']=='pass' else failed).add(k)
base=set(json.load(open('/root/.vp/BASELINE.json'))['stable_pass'])
missing=sorted(base-passed)
print("baseline tests: %d, passed now: %d, failed now: %d, baseline tests not passing: %d"%(len(base),len(passed),len(failed),len(missing)))
for m in missing[:20]: print("  MISSING", m)
for m in sorted(failed)[:20]: print("  FAILED", m)
import sys
sys.exit(1 if missing or failed else 0)
PY
