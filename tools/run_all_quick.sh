#!/bin/bash
# runs every registered quick check sequentially and prints a one-line summary each
cd /verif
for p in $(python3 -c "import json; print(' '.join(c['property_id'] for c in json.load(open('MANIFEST.json'))['checks']))") "$@"; do
  s=$(date +%s)
  out=$(./check.sh $p quick 2>&1); rc=$?
  e=$(( $(date +%s) - s ))
  echo "$p exit=$rc ${e}s $(echo "$out" | grep -c '^VIOLATION') viol $(echo "$out" | grep -c '^KNOWN-FINDING') known $(echo "$out" | grep -c '^INCONCLUSIVE') inconcl $(echo "$out" | grep -c 'BROKEN-CHECK') broken"
  echo "$out" | grep "^VIOLATION\|BROKEN-CHECK\|^INCONCLUSIVE" | head -4
done
