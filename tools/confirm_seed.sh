#!/bin/bash
# usage: confirm_seed.sh <prop> <variant>   — confirms a seeded change in a scratch worktree:
# suite passes with the change, demo fails with it and passes without it.
set -u
P=$1; X=$2
SRC=${SEED_SRC:-/tmp/seed_out}/$P/$X
WT=/tmp/confirm_wt_${P}_$X
export GOFLAGS=-mod=mod GOPROXY=off GOTOOLCHAIN=auto
git -C /repo worktree add -q --detach $WT HEAD || exit 2
trap 'git -C /repo worktree remove --force $WT' EXIT
cd $WT
place=$(grep -m1 -o 'place in: *[^ ]*' $SRC/demo_test.go | sed 's/place in: *//; s#/$##')
[ -z "$place" ] && place=.
[ "$place" = "root" ] && place=.
cp $SRC/demo_test.go $place/zz_seed_demo_test.go
demo_clean=$(go test -vet=off -count=1 ./$place 2>&1 | tail -3)
echo "$demo_clean" | grep -q "^ok" && r1=PASS || r1=FAIL
git apply $SRC/patch.diff || { echo "APPLY-FAILED"; exit 2; }
demo_mut=$(go test -vet=off -count=1 ./$place 2>&1 | tail -3)
echo "$demo_mut" | grep -q "^ok" && r2=PASS || r2=FAIL
rm $place/zz_seed_demo_test.go
suite=$(go test -vet=off -count=1 ./... 2>&1 | grep -v "^ok\|no test files" | head -5)
[ -z "$suite" ] && r3=PASS || r3=FAIL
echo "CONFIRM $P/$X demo_on_clean=$r1 demo_on_mutant=$r2 suite_on_mutant=$r3"
[ "$r1" = PASS ] && [ "$r2" = FAIL ] && [ "$r3" = PASS ]
