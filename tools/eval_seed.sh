#!/bin/bash
# usage: eval_seed.sh <seed dir with patch.diff> <check id>...
# Applies the change to a scratch worktree of /repo's HEAD (outside /repo and
# /verif), runs the quick checks against it (VERIF_REPO), removes the worktree.
# EVAL_IN_REPO=1: apply to /repo itself instead (git -C /repo apply; checkout after).
set -u
D=$1; shift
cd /verif
if [ "${EVAL_IN_REPO:-0}" = 1 ]; then
  git -C /repo diff --quiet || { echo "/repo not clean"; exit 2; }
  git -C /repo apply $D/patch.diff || { echo "APPLY-FAILED"; exit 2; }
  trap 'git -C /repo checkout -- . ; git -C /repo clean -fdq' EXIT
  export VERIF_REPO=/repo
else
  WT=/tmp/eval_wt_$$
  git -C /repo worktree add -q --detach $WT HEAD || exit 2
  trap 'git -C /repo worktree remove --force $WT' EXIT
  git -C $WT apply $D/patch.diff || { echo "APPLY-FAILED"; exit 2; }
  export VERIF_REPO=$WT
fi
for c in "$@"; do
  out=$(./check.sh $c quick 2>&1)
  rc=$?
  echo "EVAL $D check=$c exit=$rc $(echo "$out" | grep -c '^VIOLATION') violations"
  echo "$out" | grep -A1 "^VIOLATION" | head -6
  echo "$out" | grep "BROKEN-CHECK\|INCONCLUSIVE" | head -3
done
