#!/bin/bash
# usage: eval_seed.sh <seed dir with patch.diff> <check id>...  — applies the change to /repo, runs the quick checks, reverts.
set -u
D=$1; shift
cd /verif
git -C /repo diff --quiet || { echo "/repo not clean"; exit 2; }
git -C /repo apply $D/patch.diff || { echo "APPLY-FAILED"; exit 2; }
trap 'git -C /repo checkout -- . ; git -C /repo clean -fdq' EXIT
for c in "$@"; do
  out=$(./check.sh $c quick 2>&1)
  rc=$?
  echo "EVAL $D check=$c exit=$rc $(echo "$out" | grep -c '^VIOLATION') violations"
  echo "$out" | grep -A1 "^VIOLATION" | head -6
  echo "$out" | grep "BROKEN-CHECK\|INCONCLUSIVE" | head -3
done
