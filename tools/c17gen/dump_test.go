package ttlv_test

import (
	"fmt"
	"os"
	"sort"
	"testing"

	_ "github.com/ovh/kmip-go"
	_ "github.com/ovh/kmip-go/payloads"
	"github.com/ovh/kmip-go/ttlv"
)

func TestDump(t *testing.T) {
	f, _ := os.Create(os.Getenv("C17_OUT"))
	defer f.Close()
	fmt.Fprintln(f, "package ttlv\n\n// Pinned registry snapshot (tags, enumerations, bit masks). Generated once from the\n// pinned commit by tools/gen_c17_pinned.sh; the check compares the registry built\n// by the current source's init functions with it, entry by entry.\n")
	tags, enums, masks := ttlv.VerifDumpRegistry()
	var tk []int
	for k := range tags {
		tk = append(tk, k)
	}
	sort.Ints(tk)
	fmt.Fprintln(f, "var c17PinnedTags = map[int]string{")
	for _, k := range tk {
		fmt.Fprintf(f, "\t0x%06X: %q,\n", k, tags[k])
	}
	fmt.Fprintln(f, "}\n")
	var ek []int
	for k := range enums {
		ek = append(ek, k)
	}
	sort.Ints(ek)
	fmt.Fprintln(f, "var c17PinnedEnums = map[int]map[uint32]string{")
	for _, k := range ek {
		fmt.Fprintf(f, "\t0x%06X: {\n", k)
		var vk []int
		for v := range enums[k] {
			vk = append(vk, int(v))
		}
		sort.Ints(vk)
		for _, v := range vk {
			fmt.Fprintf(f, "\t\t0x%08X: %q,\n", v, enums[k][uint32(v)])
		}
		fmt.Fprintln(f, "\t},")
	}
	fmt.Fprintln(f, "}\n")
	var mk []int
	for k := range masks {
		mk = append(mk, k)
	}
	sort.Ints(mk)
	fmt.Fprintln(f, "var c17PinnedMasks = map[int][]string{")
	for _, k := range mk {
		fmt.Fprintf(f, "\t0x%06X: {", k)
		for _, n := range masks[k] {
			fmt.Fprintf(f, "%q, ", n)
		}
		fmt.Fprintln(f, "},")
	}
	fmt.Fprintln(f, "}")
}
