package ttlv

func VerifDumpRegistry() (map[int]string, map[int]map[uint32]string, map[int][]string) {
	return tagNames, enumNames, bitmaskNames
}
