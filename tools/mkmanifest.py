#!/usr/bin/env python3
"""Regenerates /verif/MANIFEST.json from checks/*.json and tools/manifest_meta.json."""
import json, os, glob
root = os.path.dirname(os.path.dirname(os.path.abspath(__file__)))
meta = json.load(open(os.path.join(root, 'tools', 'manifest_meta.json')))
props = [json.loads(l) for l in open(os.path.join(root, 'properties.jsonl'))]
checks, na = [], []
for p in props:
    pid = p['id']
    spec_path = os.path.join(root, 'checks', pid + '.json')
    m = meta['checks'].get(pid)
    if os.path.exists(spec_path) and m and m.get('claimed', True):
        spec = json.load(open(spec_path))
        checks.append({
            "property_id": pid,
            "quick_cmd": "./check.sh %s quick" % pid,
            "thorough_cmd": "./check.sh %s thorough" % pid,
            "evidence_file": "/verif/evidence/%s.json" % pid,
            "replay_cmd_template": "./replay.sh {path}",
            "engine": "gosym",
            "level_claimed": {"category": "model_checking", "text": m['level_text'], "design_ref": m.get('design_ref', 'DESIGN.md section 5 ' + pid)},
            "level_note": m['level_note'],
            "technique": m.get('technique', 'bounded symbolic execution of the real go/ssa code, assertions decided by z3 (SMT, bit-vectors)'),
        })
    else:
        na.append({"property_id": pid, "reason": (m or {}).get('na_reason', meta['default_na'])})
for e in meta['engines']:
    e['serves_properties'] = [c['property_id'] for c in checks]
man = {
    "version": 1,
    "setup_cmd": meta['setup_cmd'],
    "hooks": meta['hooks'],
    "engines": meta['engines'],
    "checks": checks,
    "notes": meta['notes'],
    "not_applicable": na,
}
json.dump(man, open(os.path.join(root, 'MANIFEST.json'), 'w'), indent=1)
print("claimed:", [c['property_id'] for c in checks], "n/a:", [n['property_id'] for n in na])
