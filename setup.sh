#!/bin/bash
# Builds the executor offline from the module cache.
set -e
cd "$(dirname "$0")"
export GOFLAGS=-mod=mod GOPROXY=off GOSUMDB=off GOTOOLCHAIN=local PATH=/opt/veriftools/go1.26.8/bin:$PATH
(cd gosym && go build -o gosym .)
echo "gosym built"
