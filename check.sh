#!/bin/bash
# usage: check.sh <property> <quick|thorough>
set -u
cd "$(dirname "$0")"
export GOFLAGS=-mod=mod GOPROXY=off GOSUMDB=off GOTOOLCHAIN=local PATH=/opt/veriftools/go1.26.8/bin:$PATH
export VERIF_DIR="$(pwd)"
prop="$1"; tier="${2:-${VERIF_TIER:-quick}}"
if [ ! -x gosym/gosym ] || [ -n "$(find gosym -name '*.go' -newer gosym/gosym 2>/dev/null | head -1)" ]; then
  (cd gosym && go build -o gosym . ) || { echo "BROKEN-CHECK build of gosym failed"; exit 2; }
fi
exec gosym/gosym check -prop "$prop" -tier "$tier" -repo "${VERIF_REPO:-/repo}" -j "${VERIF_JOBS:-16}"
