#!/bin/bash
cd "$(dirname "$0")"
export GOFLAGS=-mod=mod GOPROXY=off GOSUMDB=off GOTOOLCHAIN=local PATH=/opt/veriftools/go1.26.8/bin:$PATH
export VERIF_DIR="$(pwd)"
[ -x gosym/gosym ] || ./setup.sh >/dev/null
exec gosym/gosym replay -repo "${VERIF_REPO:-/repo}" "$1"
