package main

// Text-layer stubs (DESIGN.md §3.4, C04/C18): number, hex and time formatting
// with symbolic values are contract stubs with inverse pairs kept in tables
// keyed by the produced byte terms; encoding/xml.Encoder is a small printer
// model (attribute values go through the real xml.EscapeText); the
// encoding/xml.Decoder of an item-level reader is an empty token source.
// With concrete arguments the real standard-library code is interpreted.

import (
	"fmt"
	"go/types"
	"time"

	"golang.org/x/tools/go/ssa"
)

type numEntry struct {
	val    *Term // 64-bit value
	base   int
	signed bool
	digits []*Term // the text (for base 10: fresh digit variables)
}

type timeEntry struct {
	unix *Term
	text []*Term
}

// concretizeTextModel completes a model with the digit / time-text variables
// the standard library would really produce for the model's values, so that
// predicted output bytes can be compared with a native run.
func (in *Interp) concretizeTextModel(m Model) {
	for _, e := range in.nums {
		if e.base != 10 || e.digits == nil {
			continue
		}
		v := e.val.Eval(m)
		var txt string
		if e.signed {
			txt = fmt.Sprintf("%d", int64(v))
		} else {
			txt = fmt.Sprintf("%d", v)
		}
		if len(txt) != len(e.digits) {
			continue
		}
		for i, d := range e.digits {
			if d.op == OpVar {
				m[d.name] = uint64(txt[i])
			}
		}
	}
	for _, e := range in.timeTexts {
		sec := int64(e.unix.Eval(m))
		txt := time.Unix(sec, 0).UTC().Format(time.RFC3339)
		if len(txt) != len(e.text) {
			continue
		}
		for i, d := range e.text {
			if d.op == OpVar {
				m[d.name] = uint64(txt[i])
			}
		}
	}
}

func (in *Interp) numRecord(bs []*Term, e *numEntry) {
	if in.nums == nil {
		in.nums = map[string]*numEntry{}
	}
	in.nums[bytesKey(bs)] = e
}

func (in *Interp) numLookup(s *StrV, base int) *numEntry {
	if s.opaque != "" || in.nums == nil {
		return nil
	}
	e := in.nums[bytesKey(s.b)]
	if e == nil || e.base != base {
		return nil
	}
	return e
}

var pow10 = func() []uint64 {
	p := []uint64{1}
	for i := 1; i < 20; i++ {
		p = append(p, p[i-1]*10)
	}
	return p
}()

// decimalDigits renders the symbolic 64-bit value v (signed or unsigned) in
// base 10: forks on sign and on the number of digits, digits are terms.
func (in *Interp) decimalDigits(v *Term, signed bool) []*Term {
	ck := [2]int{v.id, 0}
	if signed {
		ck[1] = 1
	}
	if d, ok := in.decCache[ck]; ok {
		return append([]*Term(nil), d...)
	}
	if in.decCache == nil {
		in.decCache = map[[2]int][]*Term{}
	}
	defer func() { in.decCache[ck] = append([]*Term(nil), in.lastDec...) }()
	var out []*Term
	mag := v
	if signed {
		if in.branch(Slt(v, intT(0))) {
			out = append(out, Const(8, '-'))
			mag = Neg(v)
		}
	}
	nd := 1
	for d := 19; d >= 1; d-- {
		if in.branch(BNot(Ult(mag, Const(64, pow10[d])))) {
			nd = d + 1
			break
		}
	}
	// The digits are fresh variables constrained to be ASCII digits (no leading
	// zero): which digits they are is the standard library's business; the table
	// below maps the text back to the value (inverse pair by assumption).
	in.numSeq++
	for j := nd - 1; j >= 0; j-- {
		d := Var(fmt.Sprintf("dec#%d[%d]", in.numSeq, j), 8)
		lo := Const(8, '0')
		if j == nd-1 && nd > 1 {
			lo = Const(8, '1')
		}
		in.addPC(BAnd(Ule(lo, d), Ule(d, Const(8, '9'))))
		out = append(out, d)
	}
	// functional consistency with the texts produced so far: equal values have
	// equal texts (Ackermann constraints; the term-identity cache above is only
	// the fast path)
	for _, e := range in.decList {
		if e.signed != signed || len(e.digits) != len(out) {
			continue
		}
		same := BoolT(true)
		for i := range out {
			same = BAnd(same, Eq(out[i], e.digits[i]))
		}
		in.addPC(BOr(BNot(Eq(v, e.val)), same))
	}
	ne := &numEntry{val: v, base: 10, signed: signed, digits: append([]*Term(nil), out...)}
	in.decList = append(in.decList, ne)
	in.numRecord(out, ne)
	in.lastDec = out
	return out
}

// symParse is strconv.ParseInt/ParseUint (base 10 or 16, no underscores) over
// symbolic text without one path per character class: the digit values and
// the "every character is a digit" condition are terms; the executor forks only
// on the sign, on validity and on the range check. Texts long enough to
// overflow 64 bits are left to the real code.
func (in *Interp) symParse(s []*Term, base, bits int, signed bool, name string) (Value, bool) {
	if base != 10 && base != 16 {
		return nil, false
	}
	maxDigits := 16
	if base == 10 {
		maxDigits = 19
	}
	if len(s) == 0 || len(s) > maxDigits {
		return nil, false
	}
	syntax := func() Value {
		return []Value{intT(0), in.mkError("strconv." + name + ": invalid syntax")}
	}
	neg := false
	if signed {
		if in.branch(Eq(s[0], Const(8, '+'))) {
			s = s[1:]
		} else if in.branch(Eq(s[0], Const(8, '-'))) {
			neg = true
			s = s[1:]
		}
		if len(s) == 0 {
			return syntax(), true
		}
	}
	valid := BoolT(true)
	n := Const(64, 0)
	for _, c := range s {
		isDigit := BAnd(Ule(Const(8, '0'), c), Ule(c, Const(8, '9')))
		d := Sub(c, Const(8, '0'))
		ok := isDigit
		if base == 16 {
			lc := Or(c, Const(8, 0x20))
			isAlpha := BAnd(Ule(Const(8, 'a'), lc), Ule(lc, Const(8, 'f')))
			ok = BOr(isDigit, isAlpha)
			d = Ite(isDigit, d, Add(Sub(lc, Const(8, 'a')), Const(8, 10)))
			n = Or(Shl(n, Const(64, 4)), ZExt(Extract(d, 3, 0), 64))
		} else {
			n = Add(Mul(n, Const(64, 10)), ZExt(d, 64))
		}
		valid = BAnd(valid, ok)
	}
	if !in.branch(valid) {
		return syntax(), true
	}
	n = in.simp(n)
	if !signed {
		if bits < 64 {
			max := uint64(1)<<bits - 1
			if in.branch(Ult(Const(64, max), n)) {
				return []Value{Const(64, max), errRange(in, name)}, true
			}
		}
		return []Value{n, (*IfaceV)(nil)}, true
	}
	cutoff := uint64(1) << (bits - 1)
	if !neg {
		if in.branch(Ule(Const(64, cutoff), n)) {
			return []Value{Const(64, cutoff-1), errRange(in, name)}, true
		}
		return []Value{n, (*IfaceV)(nil)}, true
	}
	if in.branch(Ult(Const(64, cutoff), n)) {
		return []Value{Neg(Const(64, cutoff)), errRange(in, name)}, true
	}
	return []Value{Neg(n), (*IfaceV)(nil)}, true
}

func errRange(in *Interp, fnName string) Value { return in.mkError("strconv." + fnName + ": value out of range") }

func init() {
	I := intrinsics
	symInt := func(v Value) (*Term, bool) {
		t, ok := v.(*Term)
		return t, ok && !t.IsConst()
	}
	I["strconv.AppendInt"] = func(in *Interp, caller *frame, fn *ssa.Function, args []Value) Value {
		v, sym := symInt(args[1])
		b, _ := args[2].(*Term)
		if !sym || b == nil || !b.IsConst() || b.Int() != 10 {
			return in.callSSABody(caller, fn, args)
		}
		return in.appendOp(args[0].(*SliceV), &StrV{b: in.decimalDigits(in.simp(v), true)}, types.NewSlice(types.Typ[types.Uint8]))
	}
	I["strconv.AppendUint"] = func(in *Interp, caller *frame, fn *ssa.Function, args []Value) Value {
		v, sym := symInt(args[1])
		b, _ := args[2].(*Term)
		if !sym || b == nil || !b.IsConst() || b.Int() != 10 {
			return in.callSSABody(caller, fn, args)
		}
		return in.appendOp(args[0].(*SliceV), &StrV{b: in.decimalDigits(in.simp(v), false)}, types.NewSlice(types.Typ[types.Uint8]))
	}
	I["strconv.FormatInt"] = func(in *Interp, caller *frame, fn *ssa.Function, args []Value) Value {
		v, sym := symInt(args[0])
		b, _ := args[1].(*Term)
		if !sym || b == nil || !b.IsConst() || b.Int() != 10 {
			return in.callSSABody(caller, fn, args)
		}
		return &StrV{b: in.decimalDigits(in.simp(v), true)}
	}
	I["strconv.FormatUint"] = func(in *Interp, caller *frame, fn *ssa.Function, args []Value) Value {
		v, sym := symInt(args[0])
		b, _ := args[1].(*Term)
		if !sym || b == nil || !b.IsConst() || b.Int() != 10 {
			return in.callSSABody(caller, fn, args)
		}
		return &StrV{b: in.decimalDigits(in.simp(v), false)}
	}
	I["strconv.Itoa"] = func(in *Interp, caller *frame, fn *ssa.Function, args []Value) Value {
		v, sym := symInt(args[0])
		if !sym {
			return in.callSSABody(caller, fn, args)
		}
		return &StrV{b: in.decimalDigits(in.simp(v), true)}
	}
	// big.Int decimal text (JSON writes small big integers as numbers)
	bigDecimal := func(in *Interp, x *Cell) ([]*Term, bool) {
		neg, _ := fieldCell(x, "neg").v.(*Term)
		abs, _ := fieldCell(x, "abs").v.(*SliceV)
		if neg == nil || abs == nil {
			return nil, false
		}
		n := 0
		if abs.arr != nil {
			n = in.sliceLen(abs)
		}
		if n == 0 {
			return mkStr("0").b, true
		}
		if n > 1 {
			return nil, false
		}
		w := in.sliceElem(abs, 0).v.(*Term)
		if w.IsConst() && neg.IsConst() {
			return nil, false
		}
		if in.branch(Slt(w, intT(0))) {
			in.unsupported("decimal text of a big integer beyond 63 bits")
		}
		v := Ite(neg, Neg(w), w)
		return in.decimalDigits(in.simp(v), true), true
	}
	I["(*math/big.Int).Append"] = func(in *Interp, caller *frame, fn *ssa.Function, args []Value) Value {
		b, _ := args[2].(*Term)
		x, _ := args[0].(*Cell)
		if x == nil || b == nil || !b.IsConst() || b.Int() != 10 {
			return in.callSSABody(caller, fn, args)
		}
		digits, ok := bigDecimal(in, x)
		if !ok {
			return in.callSSABody(caller, fn, args)
		}
		return in.appendOp(args[1].(*SliceV), &StrV{b: digits}, types.NewSlice(types.Typ[types.Uint8]))
	}
	parse := func(signed bool, name string) intrinsicFn {
		return func(in *Interp, caller *frame, fn *ssa.Function, args []Value) Value {
			s := args[0].(*StrV)
			if _, conc := s.concrete(); conc || s.opaque != "" {
				return in.callSSABody(caller, fn, args)
			}
			bt, _ := args[1].(*Term)
			wt, _ := args[2].(*Term)
			if bt == nil || wt == nil || !bt.IsConst() || !wt.IsConst() {
				return in.callSSABody(caller, fn, args)
			}
			base := int(bt.Int())
			bits := int(wt.Int())
			if bits == 0 {
				bits = 64
			}
			e := in.numLookup(s, base)
			if e == nil {
				// not the output of a formatting stub: arbitrary text
				if r, ok := in.symParse(s.b, base, bits, signed, name); ok {
					return r
				}
				return in.callSSABody(caller, fn, args)
			}
			v := e.val
			// does the mathematical value fit the requested type?
			var fits *Term
			switch {
			case signed && e.signed:
				if bits >= 64 {
					fits = TT.True
				} else {
					fits = BAnd(Sle(intT(-(1<<(bits-1))), v), Sle(v, intT(1<<(bits-1)-1)))
				}
			case signed && !e.signed:
				// unsigned text parsed as signed
				if bits >= 64 {
					fits = Sle(intT(0), v)
				} else {
					fits = Ule(v, Const(64, 1<<(bits-1)-1))
				}
			case !signed && e.signed:
				if bits >= 64 {
					fits = Sle(intT(0), v)
				} else {
					fits = BAnd(Sle(intT(0), v), Ule(v, Const(64, 1<<bits-1)))
				}
			default:
				if bits >= 64 {
					fits = TT.True
				} else {
					fits = Ule(v, Const(64, 1<<bits-1))
				}
			}
			if in.branch(fits) {
				return []Value{v, (*IfaceV)(nil)}
			}
			if signed && e.signed && in.branch(Slt(v, intT(0))) {
				return []Value{intT(-(1 << (bits - 1))), errRange(in, name)}
			}
			if signed {
				return []Value{intT(1<<(bits-1) - 1), errRange(in, name)}
			}
			if !signed && e.signed && in.branch(Slt(v, intT(0))) {
				// "-5" is a syntax error for ParseUint
				return []Value{intT(0), in.mkError("strconv." + name + ": invalid syntax")}
			}
			if bits >= 64 {
				return []Value{Const(64, ^uint64(0)), errRange(in, name)}
			}
			return []Value{Const(64, 1<<bits-1), errRange(in, name)}
		}
	}
	I["strconv.ParseInt"] = parse(true, "ParseInt")
	I["strconv.ParseUint"] = parse(false, "ParseUint")

	// hex
	hexEncode := func(in *Interp, bs []*Term) []*Term {
		const tab = "0123456789abcdef"
		out := make([]*Term, 0, 2*len(bs))
		nib := func(n *Term) *Term {
			if n.IsConst() {
				return Const(8, uint64(tab[n.val]))
			}
			r := Const(8, uint64(tab[15]))
			for k := 14; k >= 0; k-- {
				r = Ite(Eq(n, Const(4, uint64(k))), Const(8, uint64(tab[k])), r)
			}
			return r
		}
		for _, b := range bs {
			out = append(out, nib(Extract(b, 7, 4)), nib(Extract(b, 3, 0)))
		}
		if in.hexes == nil {
			in.hexes = map[string][]*Term{}
		}
		in.hexes[bytesKey(out)] = bs
		return out
	}
	I["encoding/hex.EncodeToString"] = func(in *Interp, caller *frame, fn *ssa.Function, args []Value) Value {
		s := args[0].(*SliceV)
		if s.arr == nil {
			return in.emptyStr
		}
		return &StrV{b: hexEncode(in, in.sliceBytes(s))}
	}
	I["encoding/hex.AppendEncode"] = func(in *Interp, caller *frame, fn *ssa.Function, args []Value) Value {
		var bs []*Term
		if s := args[1].(*SliceV); s.arr != nil {
			bs = in.sliceBytes(s)
		}
		return in.appendOp(args[0].(*SliceV), &StrV{b: hexEncode(in, bs)}, types.NewSlice(types.Typ[types.Uint8]))
	}
	I["encoding/hex.DecodeString"] = func(in *Interp, caller *frame, fn *ssa.Function, args []Value) Value {
		s := args[0].(*StrV)
		if _, conc := s.concrete(); conc || s.opaque != "" || in.hexes == nil {
			return in.callSSABody(caller, fn, args)
		}
		if bs, ok := in.hexes[bytesKey(s.b)]; ok {
			return []Value{in.bytesToSlice(bs), (*IfaceV)(nil)}
		}
		return in.callSSABody(caller, fn, args)
	}
	// ToUpper keeps the association (hex digits are written in upper case)
	prevUpper := I["strings.ToUpper"]
	I["strings.ToUpper"] = func(in *Interp, caller *frame, fn *ssa.Function, args []Value) Value {
		s := args[0].(*StrV)
		res := prevUpper(in, caller, fn, args).(*StrV)
		if in.hexes != nil && s.opaque == "" {
			if bs, ok := in.hexes[bytesKey(s.b)]; ok {
				in.hexes[bytesKey(res.b)] = bs
			}
		}
		return res
	}

	// time formatting: RFC 3339 of a whole-second instant in years 1..9999 is a
	// 20-byte text standing for the instant; Parse of that text returns it.
	timeFormat := func(in *Interp, caller *frame, t Value, layout *StrV) []*Term {
		unix := in.callSSA(caller, 0, in.prog.MethodValue(in.prog.MethodSets.MethodSet(in.namedType("time", "Time")).Lookup(nil, "Unix")), []Value{t}, nil).(*Term)
		for _, e := range in.timeTexts {
			if e.unix == unix { // one instant, one text
				return append([]*Term(nil), e.text...)
			}
		}
		prev := in.timeTexts
		in.timeSeq++
		bs := make([]*Term, 20)
		for i := range bs {
			bs[i] = Var(fmt.Sprintf("time.text#%d[%d]", in.timeSeq, i), 8)
			// 2006-01-02T15:04:05Z
			switch i {
			case 4, 7:
				bs[i] = Const(8, '-')
			case 10:
				bs[i] = Const(8, 'T')
			case 13, 16:
				bs[i] = Const(8, ':')
			case 19:
				bs[i] = Const(8, 'Z')
			default:
				in.addPC(BAnd(Ule(Const(8, '0'), bs[i]), Ule(bs[i], Const(8, '9'))))
			}
		}
		for _, e := range prev {
			same := BoolT(true)
			for i := range bs {
				same = BAnd(same, Eq(bs[i], e.text[i]))
			}
			in.addPC(BOr(BNot(Eq(unix, e.unix)), same))
		}
		if in.times == nil {
			in.times = map[string]*Term{}
		}
		in.times[bytesKey(bs)] = unix
		in.timeTexts = append(in.timeTexts, &timeEntry{unix: unix, text: bs})
		return bs
	}
	concreteTime := func(in *Interp, caller *frame, t Value) bool {
		unix := in.callSSA(caller, 0, in.prog.MethodValue(in.prog.MethodSets.MethodSet(in.namedType("time", "Time")).Lookup(nil, "Unix")), []Value{t}, nil).(*Term)
		return in.simp(unix).IsConst()
	}
	I["(time.Time).Format"] = func(in *Interp, caller *frame, fn *ssa.Function, args []Value) Value {
		if concreteTime(in, caller, args[0]) {
			return in.callSSABody(caller, fn, args)
		}
		return &StrV{b: timeFormat(in, caller, args[0], args[1].(*StrV))}
	}
	I["(time.Time).AppendFormat"] = func(in *Interp, caller *frame, fn *ssa.Function, args []Value) Value {
		if concreteTime(in, caller, args[0]) {
			return in.callSSABody(caller, fn, args)
		}
		return in.appendOp(args[1].(*SliceV), &StrV{b: timeFormat(in, caller, args[0], args[2].(*StrV))}, types.NewSlice(types.Typ[types.Uint8]))
	}
	I["time.Parse"] = func(in *Interp, caller *frame, fn *ssa.Function, args []Value) Value {
		s := args[1].(*StrV)
		if _, conc := s.concrete(); conc {
			return in.callSSABody(caller, fn, args)
		}
		zero := in.zero(in.namedType("time", "Time"))
		if s.opaque == "" && in.times != nil {
			if unix, ok := in.times[bytesKey(s.b)]; ok {
				t := in.callSSA(caller, 0, in.stdFunc("time", "Unix"), []Value{unix, intT(0)}, nil)
				return []Value{t, (*IfaceV)(nil)}
			}
		}
		// any other text: an error, or some instant
		if in.choose(2, "time.Parse") == 0 {
			return []Value{zero, in.mkError("time.Parse: cannot parse")}
		}
		sec := Var(in.freshName("time.Parse.sec"), 64)
		in.assume(BAnd(Sle(intT(-62135596800), sec), Sle(sec, intT(253402300799))))
		t := in.callSSA(caller, 0, in.stdFunc("time", "Unix"), []Value{sec, intT(0)}, nil)
		return []Value{t, (*IfaceV)(nil)}
	}
	ident := func(in *Interp, caller *frame, fn *ssa.Function, args []Value) Value { return args[0] }
	I["(time.Time).Local"] = ident
	I["(time.Time).UTC"] = ident

	// encoding/xml.Encoder printer model
	I["encoding/xml.NewEncoder"] = func(in *Interp, caller *frame, fn *ssa.Function, args []Value) Value {
		t := in.namedType("encoding/xml", "Encoder")
		c := in.alloc(t)
		in.set(in.hidden(c, "w"), args[0])
		in.set(in.hidden(c, "depth"), int64(0))
		in.set(in.hidden(c, "indent"), in.emptyStr)
		in.set(in.hidden(c, "state"), "start")
		return c
	}
	I["(*encoding/xml.Encoder).Indent"] = func(in *Interp, caller *frame, fn *ssa.Function, args []Value) Value {
		c := in.derefCheck(args[0])
		in.set(in.hidden(c, "indent"), args[2])
		return nil
	}
	I["(*encoding/xml.Encoder).Flush"] = func(in *Interp, caller *frame, fn *ssa.Function, args []Value) Value { return (*IfaceV)(nil) }
	I["(*encoding/xml.Encoder).Close"] = func(in *Interp, caller *frame, fn *ssa.Function, args []Value) Value { return (*IfaceV)(nil) }
	I["(*encoding/xml.Encoder).EncodeToken"] = func(in *Interp, caller *frame, fn *ssa.Function, args []Value) Value {
		c := in.derefCheck(args[0])
		w, _ := in.hidden(c, "w").v.(*IfaceV)
		depth, _ := in.hidden(c, "depth").v.(int64)
		indent, _ := in.hidden(c, "indent").v.(*StrV)
		state, _ := in.hidden(c, "state").v.(string)
		tok, _ := args[1].(*IfaceV)
		if tok == nil || w == nil {
			return in.mkError("xml: EncodeToken of nil")
		}
		var out []*Term
		lit := func(s string) { out = append(out, mkStr(s).b...) }
		newline := func(d int64) {
			if indent == nil || len(indent.b) == 0 {
				return
			}
			if state != "start" {
				lit("\n")
			}
			for i := int64(0); i < d; i++ {
				out = append(out, indent.b...)
			}
		}
		name := typeName(tok.t)
		switch name {
		case "StartElement":
			se := tok.v.(*AggV)
			local := se.f[0].(*AggV).f[1].(*StrV)
			newline(depth)
			lit("<")
			out = append(out, local.b...)
			if attrs, _ := se.f[1].(*SliceV); attrs != nil && attrs.arr != nil {
				for _, a := range in.sliceValues(attrs) {
					av := a.(*AggV)
					lit(" ")
					out = append(out, av.f[0].(*AggV).f[1].(*StrV).b...)
					lit(`="`)
					out = append(out, in.xmlEscape(caller, av.f[1].(*StrV))...)
					lit(`"`)
				}
			}
			lit(">")
			in.set(in.hidden(c, "depth"), depth+1)
			in.set(in.hidden(c, "state"), "open")
		case "EndElement":
			ee := tok.v.(*AggV)
			local := ee.f[0].(*AggV).f[1].(*StrV)
			if state == "close" {
				newline(depth - 1)
			}
			lit("</")
			out = append(out, local.b...)
			lit(">")
			in.set(in.hidden(c, "depth"), depth-1)
			in.set(in.hidden(c, "state"), "close")
		default:
			in.unsupported("xml.Encoder model: token %s", name)
		}
		in.callMethod(caller, w, "Write", in.bytesToSlice(out))
		return (*IfaceV)(nil)
	}
	// the xml.Decoder of an item-level reader stands just behind the start tag
	// of the only (empty) element of its document: one EndElement, then io.EOF
	xmlEnded := func(in *Interp, d Value) (*Cell, bool) {
		c, _ := d.(*Cell)
		if c == nil {
			in.goPanic(in.runtimeError("invalid memory address or nil pointer dereference", "nil"))
		}
		h := in.hidden(c, "ended")
		b, _ := h.v.(bool)
		return h, b
	}
	ioEOF := func(in *Interp) Value {
		return in.loadThrough(in.global(in.prog.ImportedPackage("io").Var("EOF")))
	}
	// a Decoder made by xml.NewDecoder (reader set) runs its real code
	xmlReal := func(in *Interp, d Value) bool {
		c, _ := d.(*Cell)
		if c == nil {
			return false
		}
		r, _ := fieldCell(c, "r").v.(*IfaceV)
		return r != nil
	}
	I["(*encoding/xml.Decoder).Skip"] = func(in *Interp, caller *frame, fn *ssa.Function, args []Value) Value {
		if xmlReal(in, args[0]) {
			return in.callSSABody(caller, fn, args)
		}
		h, ended := xmlEnded(in, args[0])
		if ended {
			return ioEOF(in)
		}
		in.set(h, true)
		return (*IfaceV)(nil)
	}
	I["(*encoding/xml.Decoder).Token"] = func(in *Interp, caller *frame, fn *ssa.Function, args []Value) Value {
		if xmlReal(in, args[0]) {
			return in.callSSABody(caller, fn, args)
		}
		h, ended := xmlEnded(in, args[0])
		if ended {
			return []Value{(*IfaceV)(nil), ioEOF(in)}
		}
		in.set(h, true)
		t := in.namedType("encoding/xml", "EndElement")
		return []Value{&IfaceV{t: t, v: in.zero(t)}, (*IfaceV)(nil)}
	}
}

// xmlEscape runs the real xml.EscapeText over the attribute value.
func (in *Interp) xmlEscape(caller *frame, s *StrV) []*Term {
	if s.opaque != "" {
		in.unsupported("xml attribute value is an opaque string")
	}
	if c, ok := s.concrete(); ok {
		plain := true
		for i := 0; i < len(c); i++ {
			if c[i] < 0x20 || c[i] > 0x7e || c[i] == '"' || c[i] == '\'' || c[i] == '&' || c[i] == '<' || c[i] == '>' {
				plain = false
			}
		}
		if plain {
			return s.b
		}
	}
	// bytes.Buffer + real EscapeText
	bt := in.namedType("bytes", "Buffer")
	buf := in.alloc(bt)
	w := &IfaceV{t: types.NewPointer(bt), v: buf}
	in.callSSA(caller, 0, in.stdFunc("encoding/xml", "EscapeText"), []Value{w, in.bytesToSlice(s.b)}, nil)
	r, _ := in.callMethod(caller, w, "Bytes")
	rs := r.(*SliceV)
	if rs.arr == nil {
		return nil
	}
	return in.sliceBytes(rs)
}
