package main

// Model of package reflect over go/types and the executor's own memory
// (DESIGN.md §3.4). reflect.Type values are interface values whose payload is
// a canonical *RType; reflect.Value values are *RValue.

import (
	"fmt"
	"go/types"

	"golang.org/x/tools/go/ssa"
)

func (in *Interp) rtype(t types.Type) *RType {
	if r := in.rtypes.At(t); r != nil {
		return r.(*RType)
	}
	in.rtypeSeq++
	r := &RType{t: t, id: in.rtypeSeq}
	in.rtypes.Set(t, r)
	return r
}

func (in *Interp) rtypeIface(t types.Type) Value {
	if t == nil {
		return (*IfaceV)(nil)
	}
	return &IfaceV{t: in.rtypeDyn(), v: in.rtype(t)}
}

var rtypeDynT types.Type

func (in *Interp) rtypeDyn() types.Type {
	if rtypeDynT == nil {
		rtypeDynT = types.NewPointer(in.namedType("reflect", "rtype"))
	}
	return rtypeDynT
}

func isReflectValue(t types.Type) bool {
	n, ok := t.(*types.Named)
	if !ok {
		return false
	}
	o := n.Obj()
	return o.Pkg() != nil && o.Pkg().Path() == "reflect" && o.Name() == "Value"
}

func reflectKind(t types.Type) int {
	switch u := t.Underlying().(type) {
	case *types.Basic:
		switch u.Kind() {
		case types.Bool:
			return 1
		case types.Int:
			return 2
		case types.Int8:
			return 3
		case types.Int16:
			return 4
		case types.Int32:
			return 5
		case types.Int64:
			return 6
		case types.Uint:
			return 7
		case types.Uint8:
			return 8
		case types.Uint16:
			return 9
		case types.Uint32:
			return 10
		case types.Uint64:
			return 11
		case types.Uintptr:
			return 12
		case types.Float32:
			return 13
		case types.Float64:
			return 14
		case types.Complex64:
			return 15
		case types.Complex128:
			return 16
		case types.String:
			return 24
		case types.UnsafePointer:
			return 26
		}
	case *types.Array:
		return 17
	case *types.Chan:
		return 18
	case *types.Signature:
		return 19
	case *types.Interface:
		return 20
	case *types.Map:
		return 21
	case *types.Pointer:
		return 22
	case *types.Slice:
		return 23
	case *types.Struct:
		return 25
	}
	return 0
}

const (
	kInterface = 20
	kPointer   = 22
	kSlice     = 23
	kString    = 24
	kStruct    = 25
	kArray     = 17
	kMap       = 21
)

func kindT(k int) *Term { return Const(64, uint64(k)) }

func typeName(t types.Type) string {
	switch x := t.(type) {
	case *types.Named:
		n := x.Obj().Name()
		if ta := x.TypeArgs(); ta != nil && ta.Len() > 0 {
			n += "["
			for i := 0; i < ta.Len(); i++ {
				if i > 0 {
					n += ","
				}
				n += types.TypeString(ta.At(i), func(p *types.Package) string { return p.Path() })
			}
			n += "]"
		}
		return n
	case *types.Alias:
		return typeName(types.Unalias(x))
	case *types.Basic:
		return x.Name()
	}
	return ""
}

func typeStringR(t types.Type) string {
	return types.TypeString(t, func(p *types.Package) string { return p.Name() })
}

// invokeModel dispatches interface method calls on model objects.
func (in *Interp) invokeModel(fr *frame, iv *IfaceV, m *types.Func, args []Value) (Value, bool) {
	rt, ok := iv.v.(*RType)
	if !ok {
		return nil, false
	}
	t := rt.t
	switch m.Name() {
	case "Kind":
		return kindT(reflectKind(t)), true
	case "Elem":
		switch u := t.Underlying().(type) {
		case *types.Pointer:
			return in.rtypeIface(u.Elem()), true
		case *types.Slice:
			return in.rtypeIface(u.Elem()), true
		case *types.Array:
			return in.rtypeIface(u.Elem()), true
		case *types.Map:
			return in.rtypeIface(u.Elem()), true
		case *types.Chan:
			return in.rtypeIface(u.Elem()), true
		}
		in.goPanic(&goPanic{kind: "user", msg: "reflect: Elem of invalid type " + t.String()})
	case "Key":
		return in.rtypeIface(t.Underlying().(*types.Map).Key()), true
	case "Len":
		return intT(t.Underlying().(*types.Array).Len()), true
	case "NumField":
		st, ok := t.Underlying().(*types.Struct)
		if !ok {
			in.goPanic(&goPanic{kind: "user", msg: "reflect: NumField of non-struct type " + t.String()})
		}
		return intT(int64(st.NumFields())), true
	case "Field":
		st, ok := t.Underlying().(*types.Struct)
		if !ok {
			in.goPanic(&goPanic{kind: "user", msg: "reflect: Field of non-struct type " + t.String()})
		}
		i := int(in.concInt(args[0].(*Term), "reflect field index"))
		if i < 0 || i >= st.NumFields() {
			in.goPanic(&goPanic{kind: "user", msg: "reflect: Field index out of bounds"})
		}
		f := st.Field(i)
		pkgPath := ""
		if !f.Exported() && f.Pkg() != nil {
			pkgPath = f.Pkg().Path()
		}
		idx := in.mkSlice(types.Typ[types.Int], 1, 1)
		idx.arr.kids[0].v = intT(int64(i))
		return &AggV{f: []Value{mkStr(f.Name()), mkStr(pkgPath), in.rtypeIface(f.Type()), mkStr(st.Tag(i)), Const(64, 0), idx, BoolT(f.Embedded())}}, true
	case "Name":
		return mkStr(typeName(t)), true
	case "String":
		return mkStr(typeStringR(t)), true
	case "PkgPath":
		if n, ok := t.(*types.Named); ok && n.Obj().Pkg() != nil {
			return mkStr(n.Obj().Pkg().Path()), true
		}
		return in.emptyStr, true
	case "Implements":
		u, _ := args[0].(*IfaceV)
		if u == nil {
			in.goPanic(&goPanic{kind: "user", msg: "reflect: nil type passed to Type.Implements"})
		}
		it, ok := u.v.(*RType).t.Underlying().(*types.Interface)
		if !ok {
			in.goPanic(&goPanic{kind: "user", msg: "reflect: non-interface type passed to Type.Implements"})
		}
		return BoolT(types.Implements(t, it)), true
	case "AssignableTo":
		u := args[0].(*IfaceV).v.(*RType).t
		return BoolT(types.AssignableTo(t, u)), true
	case "ConvertibleTo":
		u := args[0].(*IfaceV).v.(*RType).t
		return BoolT(types.ConvertibleTo(t, u)), true
	case "Comparable":
		return BoolT(types.Comparable(t)), true
	case "NumMethod":
		return intT(int64(in.prog.MethodSets.MethodSet(t).Len())), true
	case "Size":
		return Const(64, uint64(in.sizes().Sizeof(t))), true
	case "Bits":
		return intT(int64(in.sizes().Sizeof(t) * 8)), true
	}
	in.unsupported("reflect.Type method %s", m.Name())
	return nil, true
}

func (in *Interp) sizes() types.Sizes { return types.SizesFor("gc", "amd64") }

func (rv *RValue) get(in *Interp) Value {
	if rv.cell != nil {
		return in.load(rv.cell)
	}
	return rv.v
}

func (in *Interp) rvalueCheck(v Value, what string) *RValue {
	rv := v.(*RValue)
	if rv == nil || !rv.ok {
		in.goPanic(&goPanic{kind: "user", msg: "reflect: call of reflect.Value." + what + " on zero Value"})
	}
	return rv
}

func (in *Interp) mustAddr(rv *RValue, what string) {
	if rv.cell == nil {
		in.goPanic(&goPanic{kind: "user", msg: "reflect: reflect.Value." + what + " using unaddressable value"})
	}
}

func (in *Interp) isZeroTerm(v Value, t types.Type) *Term {
	switch x := v.(type) {
	case *Term:
		if x.IsBool() {
			return BNot(x)
		}
		return Eq(x, Const(x.Width(), 0))
	case *StrV:
		if x.opaque != "" {
			return TT.False
		}
		return BoolT(len(x.b) == 0)
	case *Cell:
		return BoolT(x == nil)
	case *SliceV:
		return BoolT(x.arr == nil)
	case *IfaceV:
		return BoolT(x == nil)
	case *MapV:
		return BoolT(x == nil)
	case *FuncV:
		return BoolT(x == nil)
	case *ChanV:
		return BoolT(x == nil)
	case float64:
		return BoolT(x == 0)
	case *AggV:
		r := TT.True
		for i, f := range x.f {
			var ft types.Type
			switch u := t.Underlying().(type) {
			case *types.Struct:
				ft = u.Field(i).Type()
			case *types.Array:
				ft = u.Elem()
			}
			r = BAnd(r, in.isZeroTerm(f, ft))
			if r.IsFalse() {
				return r
			}
		}
		return r
	case *RValue:
		return BoolT(x == nil || !x.ok)
	}
	panic(fmt.Sprintf("isZeroTerm %T", v))
}

func init() {
	I := intrinsics
	type fnT = func(in *Interp, caller *frame, fn *ssa.Function, args []Value) Value

	I["reflect.TypeOf"] = func(in *Interp, caller *frame, fn *ssa.Function, args []Value) Value {
		iv, _ := args[0].(*IfaceV)
		if iv == nil {
			return (*IfaceV)(nil)
		}
		return in.rtypeIface(iv.t)
	}
	I["reflect.TypeFor"] = func(in *Interp, caller *frame, fn *ssa.Function, args []Value) Value {
		return in.rtypeIface(fn.TypeArgs()[0])
	}
	I["internal/reflectlite.TypeOf"] = I["reflect.TypeOf"]
	I["reflect.ValueOf"] = func(in *Interp, caller *frame, fn *ssa.Function, args []Value) Value {
		iv, _ := args[0].(*IfaceV)
		if iv == nil {
			return &RValue{}
		}
		return &RValue{t: iv.t, v: iv.v, ok: true}
	}
	ptrTo := func(in *Interp, caller *frame, fn *ssa.Function, args []Value) Value {
		return in.rtypeIface(types.NewPointer(args[0].(*IfaceV).v.(*RType).t))
	}
	I["reflect.PointerTo"] = ptrTo
	I["reflect.PtrTo"] = ptrTo
	I["reflect.New"] = func(in *Interp, caller *frame, fn *ssa.Function, args []Value) Value {
		t := args[0].(*IfaceV).v.(*RType).t
		return &RValue{t: types.NewPointer(t), v: in.alloc(t), ok: true}
	}
	I["reflect.Zero"] = func(in *Interp, caller *frame, fn *ssa.Function, args []Value) Value {
		t := args[0].(*IfaceV).v.(*RType).t
		return &RValue{t: t, v: in.zero(t), ok: true}
	}
	I["reflect.Indirect"] = func(in *Interp, caller *frame, fn *ssa.Function, args []Value) Value {
		rv := args[0].(*RValue)
		if reflectKind(rv.t) != kPointer {
			return rv
		}
		return reflectElem(in, rv)
	}
	I["reflect.Append"] = func(in *Interp, caller *frame, fn *ssa.Function, args []Value) Value {
		s := in.rvalueCheck(args[0], "Append")
		var add []Value
		for _, x := range in.sliceValues(args[1].(*SliceV)) {
			add = append(add, x.(*RValue).get(in))
		}
		st := s.t
		elem := st.Underlying().(*types.Slice).Elem()
		tmp := in.mkSlice(elem, len(add), len(add))
		for i, v := range add {
			in.store(tmp.arr.kids[i], v)
		}
		res := in.appendOp(s.get(in).(*SliceV), tmp, st)
		return &RValue{t: st, v: res, ok: true}
	}
	I["reflect.MakeSlice"] = func(in *Interp, caller *frame, fn *ssa.Function, args []Value) Value {
		t := args[0].(*IfaceV).v.(*RType).t
		n := int(in.concInt(args[1].(*Term), "reflect.MakeSlice len"))
		c := int(in.concInt(args[2].(*Term), "reflect.MakeSlice cap"))
		return &RValue{t: t, v: in.mkSlice(t.Underlying().(*types.Slice).Elem(), n, c), ok: true}
	}
	I["reflect.DeepEqual"] = func(in *Interp, caller *frame, fn *ssa.Function, args []Value) Value {
		in.unsupported("reflect.DeepEqual")
		return nil
	}

	V := func(name string, f fnT) { I["(reflect.Value)."+name] = f }
	V("IsValid", func(in *Interp, caller *frame, fn *ssa.Function, args []Value) Value {
		rv := args[0].(*RValue)
		return BoolT(rv != nil && rv.ok)
	})
	V("Kind", func(in *Interp, caller *frame, fn *ssa.Function, args []Value) Value {
		rv := args[0].(*RValue)
		if rv == nil || !rv.ok {
			return kindT(0)
		}
		return kindT(reflectKind(rv.t))
	})
	V("Type", func(in *Interp, caller *frame, fn *ssa.Function, args []Value) Value {
		rv := in.rvalueCheck(args[0], "Type")
		return in.rtypeIface(rv.t)
	})
	V("Elem", func(in *Interp, caller *frame, fn *ssa.Function, args []Value) Value {
		return reflectElem(in, in.rvalueCheck(args[0], "Elem"))
	})
	V("IsNil", func(in *Interp, caller *frame, fn *ssa.Function, args []Value) Value {
		rv := in.rvalueCheck(args[0], "IsNil")
		switch x := rv.get(in).(type) {
		case *Cell:
			return BoolT(x == nil)
		case *IfaceV:
			return BoolT(x == nil)
		case *SliceV:
			return BoolT(x.arr == nil)
		case *MapV:
			return BoolT(x == nil)
		case *FuncV:
			return BoolT(x == nil)
		case *ChanV:
			return BoolT(x == nil)
		}
		in.goPanic(&goPanic{kind: "user", msg: "reflect: call of reflect.Value.IsNil on " + rv.t.String() + " Value"})
		return nil
	})
	V("IsZero", func(in *Interp, caller *frame, fn *ssa.Function, args []Value) Value {
		rv := in.rvalueCheck(args[0], "IsZero")
		return in.isZeroTerm(rv.get(in), rv.t)
	})
	V("CanAddr", func(in *Interp, caller *frame, fn *ssa.Function, args []Value) Value {
		rv := args[0].(*RValue)
		return BoolT(rv != nil && rv.cell != nil)
	})
	V("CanSet", I["(reflect.Value).CanAddr"])
	V("NumMethod", func(in *Interp, caller *frame, fn *ssa.Function, args []Value) Value {
		rv := in.rvalueCheck(args[0], "NumMethod")
		if it, ok := rv.t.Underlying().(*types.Interface); ok {
			return intT(int64(it.NumMethods()))
		}
		n := 0
		ms := in.prog.MethodSets.MethodSet(rv.t)
		for i := 0; i < ms.Len(); i++ {
			if ms.At(i).Obj().Exported() {
				n++
			}
		}
		return intT(int64(n))
	})
	V("CanInterface", func(in *Interp, caller *frame, fn *ssa.Function, args []Value) Value { return TT.True })
	V("Addr", func(in *Interp, caller *frame, fn *ssa.Function, args []Value) Value {
		rv := in.rvalueCheck(args[0], "Addr")
		if rv.cell == nil {
			in.goPanic(&goPanic{kind: "user", msg: "reflect.Value.Addr of unaddressable value"})
		}
		return &RValue{t: types.NewPointer(rv.t), v: rv.cell, ok: true}
	})
	V("Interface", func(in *Interp, caller *frame, fn *ssa.Function, args []Value) Value {
		rv := in.rvalueCheck(args[0], "Interface")
		v := rv.get(in)
		if _, isI := rv.t.Underlying().(*types.Interface); isI {
			return v
		}
		return &IfaceV{t: rv.t, v: v}
	})
	V("Field", func(in *Interp, caller *frame, fn *ssa.Function, args []Value) Value {
		rv := in.rvalueCheck(args[0], "Field")
		st, ok := rv.t.Underlying().(*types.Struct)
		if !ok {
			in.goPanic(&goPanic{kind: "user", msg: "reflect: call of reflect.Value.Field on " + rv.t.String() + " Value"})
		}
		i := int(in.concInt(args[1].(*Term), "reflect field index"))
		if i < 0 || i >= st.NumFields() {
			in.goPanic(&goPanic{kind: "user", msg: "reflect: Field index out of range"})
		}
		ft := st.Field(i).Type()
		if rv.cell != nil {
			return &RValue{t: ft, cell: rv.cell.kids[i], ok: true}
		}
		return &RValue{t: ft, v: rv.v.(*AggV).f[i], ok: true}
	})
	V("FieldByName", func(in *Interp, caller *frame, fn *ssa.Function, args []Value) Value {
		rv := in.rvalueCheck(args[0], "FieldByName")
		st, ok := rv.t.Underlying().(*types.Struct)
		if !ok {
			in.goPanic(&goPanic{kind: "user", msg: "reflect: call of reflect.Value.FieldByName on " + rv.t.String() + " Value"})
		}
		name := strArg(in, args[1])
		for i := 0; i < st.NumFields(); i++ {
			if st.Field(i).Name() == name {
				if rv.cell != nil {
					return &RValue{t: st.Field(i).Type(), cell: rv.cell.kids[i], ok: true}
				}
				return &RValue{t: st.Field(i).Type(), v: rv.v.(*AggV).f[i], ok: true}
			}
		}
		return &RValue{}
	})
	V("NumField", func(in *Interp, caller *frame, fn *ssa.Function, args []Value) Value {
		rv := in.rvalueCheck(args[0], "NumField")
		return intT(int64(rv.t.Underlying().(*types.Struct).NumFields()))
	})
	V("Len", func(in *Interp, caller *frame, fn *ssa.Function, args []Value) Value {
		rv := in.rvalueCheck(args[0], "Len")
		switch x := rv.get(in).(type) {
		case *SliceV:
			return x.len_
		case *StrV:
			return intT(int64(len(x.b)))
		case *AggV:
			return intT(int64(len(x.f)))
		case *MapV:
			if x == nil {
				return intT(0)
			}
			return intT(int64(len(x.m)))
		}
		in.goPanic(&goPanic{kind: "user", msg: "reflect: call of reflect.Value.Len on " + rv.t.String() + " Value"})
		return nil
	})
	V("Index", func(in *Interp, caller *frame, fn *ssa.Function, args []Value) Value {
		rv := in.rvalueCheck(args[0], "Index")
		i := int(in.concInt(args[1].(*Term), "reflect index"))
		switch u := rv.t.Underlying().(type) {
		case *types.Slice:
			s := rv.get(in).(*SliceV)
			n := in.sliceLen(s)
			if i < 0 || i >= n {
				in.goPanic(&goPanic{kind: "user", msg: "reflect: slice index out of range"})
			}
			return &RValue{t: u.Elem(), cell: in.sliceElem(s, i), ok: true}
		case *types.Array:
			if rv.cell != nil {
				return &RValue{t: u.Elem(), cell: rv.cell.kids[i], ok: true}
			}
			return &RValue{t: u.Elem(), v: rv.v.(*AggV).f[i], ok: true}
		case *types.Basic:
			s := rv.get(in).(*StrV)
			return &RValue{t: types.Typ[types.Uint8], v: s.b[i], ok: true}
		}
		in.goPanic(&goPanic{kind: "user", msg: "reflect: call of reflect.Value.Index on " + rv.t.String() + " Value"})
		return nil
	})
	V("Int", func(in *Interp, caller *frame, fn *ssa.Function, args []Value) Value {
		rv := in.rvalueCheck(args[0], "Int")
		t, ok := rv.get(in).(*Term)
		if !ok || t.IsBool() || !isSigned(rv.t) {
			in.goPanic(&goPanic{kind: "user", msg: "reflect: call of reflect.Value.Int on " + rv.t.String() + " Value"})
		}
		return SExt(t, 64)
	})
	V("Uint", func(in *Interp, caller *frame, fn *ssa.Function, args []Value) Value {
		rv := in.rvalueCheck(args[0], "Uint")
		t, ok := rv.get(in).(*Term)
		if !ok || t.IsBool() || isSigned(rv.t) {
			in.goPanic(&goPanic{kind: "user", msg: "reflect: call of reflect.Value.Uint on " + rv.t.String() + " Value"})
		}
		return ZExt(t, 64)
	})
	V("Bool", func(in *Interp, caller *frame, fn *ssa.Function, args []Value) Value {
		rv := in.rvalueCheck(args[0], "Bool")
		t, ok := rv.get(in).(*Term)
		if !ok || !t.IsBool() {
			in.goPanic(&goPanic{kind: "user", msg: "reflect: call of reflect.Value.Bool on " + rv.t.String() + " Value"})
		}
		return t
	})
	V("String", func(in *Interp, caller *frame, fn *ssa.Function, args []Value) Value {
		rv := args[0].(*RValue)
		if rv == nil || !rv.ok {
			return mkStr("<invalid Value>")
		}
		if s, ok := rv.get(in).(*StrV); ok {
			return s
		}
		return mkStr("<" + typeStringR(rv.t) + " Value>")
	})
	V("Bytes", func(in *Interp, caller *frame, fn *ssa.Function, args []Value) Value {
		rv := in.rvalueCheck(args[0], "Bytes")
		s, ok := rv.get(in).(*SliceV)
		if !ok {
			in.goPanic(&goPanic{kind: "user", msg: "reflect: call of reflect.Value.Bytes on " + rv.t.String() + " Value"})
		}
		return s
	})
	V("Pointer", func(in *Interp, caller *frame, fn *ssa.Function, args []Value) Value {
		in.unsupported("reflect.Value.Pointer")
		return nil
	})
	V("Set", func(in *Interp, caller *frame, fn *ssa.Function, args []Value) Value {
		rv := in.rvalueCheck(args[0], "Set")
		in.mustAddr(rv, "Set")
		x := in.rvalueCheck(args[1], "Set")
		val := x.get(in)
		if _, isI := rv.t.Underlying().(*types.Interface); isI {
			if _, srcI := x.t.Underlying().(*types.Interface); !srcI {
				val = &IfaceV{t: x.t, v: val}
			}
		} else if !types.AssignableTo(x.t, rv.t) {
			in.goPanic(&goPanic{kind: "user", msg: fmt.Sprintf("reflect.Set: value of type %s is not assignable to type %s", x.t, rv.t)})
		}
		in.store(rv.cell, val)
		return nil
	})
	V("SetZero", func(in *Interp, caller *frame, fn *ssa.Function, args []Value) Value {
		rv := in.rvalueCheck(args[0], "SetZero")
		in.mustAddr(rv, "SetZero")
		in.store(rv.cell, in.zero(rv.t))
		return nil
	})
	V("SetInt", func(in *Interp, caller *frame, fn *ssa.Function, args []Value) Value {
		rv := in.rvalueCheck(args[0], "SetInt")
		in.mustAddr(rv, "SetInt")
		w := intWidth(rv.t)
		if w == 0 || !isSigned(rv.t) {
			in.goPanic(&goPanic{kind: "user", msg: "reflect: call of reflect.Value.SetInt on " + rv.t.String() + " Value"})
		}
		in.store(rv.cell, Resize(args[1].(*Term), w, true))
		return nil
	})
	V("SetUint", func(in *Interp, caller *frame, fn *ssa.Function, args []Value) Value {
		rv := in.rvalueCheck(args[0], "SetUint")
		in.mustAddr(rv, "SetUint")
		w := intWidth(rv.t)
		if w == 0 || isSigned(rv.t) {
			in.goPanic(&goPanic{kind: "user", msg: "reflect: call of reflect.Value.SetUint on " + rv.t.String() + " Value"})
		}
		in.store(rv.cell, Resize(args[1].(*Term), w, false))
		return nil
	})
	V("SetBool", func(in *Interp, caller *frame, fn *ssa.Function, args []Value) Value {
		rv := in.rvalueCheck(args[0], "SetBool")
		in.mustAddr(rv, "SetBool")
		in.store(rv.cell, args[1])
		return nil
	})
	V("SetString", func(in *Interp, caller *frame, fn *ssa.Function, args []Value) Value {
		rv := in.rvalueCheck(args[0], "SetString")
		in.mustAddr(rv, "SetString")
		if reflectKind(rv.t) != kString {
			in.goPanic(&goPanic{kind: "user", msg: "reflect: call of reflect.Value.SetString on " + rv.t.String() + " Value"})
		}
		in.store(rv.cell, args[1])
		return nil
	})
	V("SetBytes", func(in *Interp, caller *frame, fn *ssa.Function, args []Value) Value {
		rv := in.rvalueCheck(args[0], "SetBytes")
		in.mustAddr(rv, "SetBytes")
		in.store(rv.cell, args[1])
		return nil
	})
}

func reflectElem(in *Interp, rv *RValue) Value {
	switch u := rv.t.Underlying().(type) {
	case *types.Pointer:
		p := rv.get(in).(*Cell)
		if p == nil {
			return &RValue{}
		}
		return &RValue{t: u.Elem(), cell: p, ok: true}
	case *types.Interface:
		iv, _ := rv.get(in).(*IfaceV)
		if iv == nil {
			return &RValue{}
		}
		return &RValue{t: iv.t, v: iv.v, ok: true}
	}
	in.goPanic(&goPanic{kind: "user", msg: "reflect: call of reflect.Value.Elem on " + rv.t.String() + " Value"})
	return nil
}
