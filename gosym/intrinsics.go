package main

// Intrinsics: the harness API (verif*), leaf functions of the standard library
// that have no Go body, and the stubs listed in DESIGN.md §3.4.

import (
	"fmt"
	"go/types"
	"os"
	"path/filepath"
	"sort"
	"strings"

	"golang.org/x/tools/go/ssa"
)

type intrinsicFn func(in *Interp, caller *frame, fn *ssa.Function, args []Value) Value

var intrinsics = map[string]intrinsicFn{}

// packages whose every function is a no-op returning zero values
var noopPackages = map[string]bool{"log/slog": true, "log": true, "internal/race": true, "internal/msan": true, "internal/asan": true}

func lookupIntrinsic(fn *ssa.Function) intrinsicFn {
	name := fn.String()
	if f, ok := intrinsics[name]; ok {
		return f
	}
	if o := fn.Origin(); o != nil {
		if f, ok := intrinsics[o.String()]; ok {
			return f
		}
	}
	if strings.HasPrefix(fn.Name(), "verif") && fn.Parent() == nil {
		if f, ok := harnessAPI[fn.Name()]; ok {
			return f
		}
		if o := fn.Origin(); o != nil {
			if f, ok := harnessAPI[o.Name()]; ok {
				return f
			}
		}
	}
	if cryptoPackages[pkgPathOf(fn)] {
		return genericCryptoStub
	}
	if noopPackages[pkgPathOf(fn)] {
		return func(in *Interp, caller *frame, fn *ssa.Function, args []Value) Value { return in.zeroResult(fn) }
	}
	return nil
}

func strArg(in *Interp, v Value) string {
	s, ok := v.(*StrV).concrete()
	if !ok {
		in.unsupported("harness API needs a concrete string argument")
	}
	return s
}

func (in *Interp) freshName(base string) string {
	n := in.nameCount[base]
	in.nameCount[base] = n + 1
	if n == 0 {
		return base
	}
	return fmt.Sprintf("%s#%d", base, n)
}

func nondetInt(w int, signed bool) intrinsicFn {
	return func(in *Interp, caller *frame, fn *ssa.Function, args []Value) Value {
		name := in.freshName(strArg(in, args[0]))
		return Var(name, w)
	}
}

var harnessAPI = map[string]intrinsicFn{}

func init() {
	h := harnessAPI
	h["verifNondetInt"] = nondetInt(64, true)
	h["verifNondetInt64"] = nondetInt(64, true)
	h["verifNondetUint64"] = nondetInt(64, false)
	h["verifNondetInt32"] = nondetInt(32, true)
	h["verifNondetUint32"] = nondetInt(32, false)
	h["verifNondetUint16"] = nondetInt(16, false)
	h["verifNondetUint8"] = nondetInt(8, false)
	h["verifNondetBool"] = func(in *Interp, caller *frame, fn *ssa.Function, args []Value) Value {
		name := in.freshName(strArg(in, args[0]))
		return Eq(Var(name, 8), Const(8, 1))
	}
	h["verifNondetBytes"] = func(in *Interp, caller *frame, fn *ssa.Function, args []Value) Value {
		name := in.freshName(strArg(in, args[0]))
		n := int(in.concInt(args[1].(*Term), "nondet bytes length"))
		bs := make([]*Term, n)
		for i := range bs {
			bs[i] = Var(fmt.Sprintf("%s[%d]", name, i), 8)
		}
		return in.bytesToSlice(bs)
	}
	h["verifNondetString"] = func(in *Interp, caller *frame, fn *ssa.Function, args []Value) Value {
		name := in.freshName(strArg(in, args[0]))
		n := int(in.concInt(args[1].(*Term), "nondet string length"))
		bs := make([]*Term, n)
		for i := range bs {
			bs[i] = Var(fmt.Sprintf("%s[%d]", name, i), 8)
		}
		return &StrV{b: bs}
	}
	h["verifAssume"] = func(in *Interp, caller *frame, fn *ssa.Function, args []Value) Value {
		in.assume(args[0].(*Term))
		return nil
	}
	h["verifAssert"] = func(in *Interp, caller *frame, fn *ssa.Function, args []Value) Value {
		in.assert(strArg(in, args[0]), args[1].(*Term))
		return nil
	}
	h["verifAnd"] = func(in *Interp, caller *frame, fn *ssa.Function, args []Value) Value {
		return BAnd(args[0].(*Term), args[1].(*Term))
	}
	h["verifOr"] = func(in *Interp, caller *frame, fn *ssa.Function, args []Value) Value {
		return BOr(args[0].(*Term), args[1].(*Term))
	}
	h["verifImplies"] = func(in *Interp, caller *frame, fn *ssa.Function, args []Value) Value {
		return BOr(BNot(args[0].(*Term)), args[1].(*Term))
	}
	h["verifIte"] = func(in *Interp, caller *frame, fn *ssa.Function, args []Value) Value {
		return Ite(args[0].(*Term), args[1].(*Term), args[2].(*Term))
	}
	h["verifChoose"] = func(in *Interp, caller *frame, fn *ssa.Function, args []Value) Value {
		what := strArg(in, args[0])
		n := int(in.concInt(args[1].(*Term), "choice count"))
		in.freshName(what) // keep occurrence numbering aligned with the native side
		return intT(int64(in.choose(n, what)))
	}
	h["verifReach"] = func(in *Interp, caller *frame, fn *ssa.Function, args []Value) Value {
		in.run.reach[strArg(in, args[0])]++
		return nil
	}
	obs := func(in *Interp, caller *frame, fn *ssa.Function, args []Value) Value {
		name := in.freshName("obs:" + strArg(in, args[0]))
		var v Value = args[1]
		if s, ok := v.(*SliceV); ok {
			if s.arr == nil {
				v = []*Term{}
			} else {
				v = in.sliceBytes(s)
			}
		}
		in.run.obs[name] = v
		in.run.obsOrder = append(in.run.obsOrder, name)
		return nil
	}
	h["verifObserveInt"] = obs
	h["verifObserveBool"] = obs
	h["verifObserveBytes"] = obs
	h["verifObserveStr"] = obs
	h["verifWatch"] = func(in *Interp, caller *frame, fn *ssa.Function, args []Value) Value {
		s := args[0].(*SliceV)
		if s.arr != nil {
			if in.watch == nil {
				in.watch = map[*Cell]bool{}
			}
			in.watch[s.arr] = true
		}
		return nil
	}
	h["verifBytesEq"] = func(in *Interp, caller *frame, fn *ssa.Function, args []Value) Value {
		a, b := args[0].(*SliceV), args[1].(*SliceV)
		return in.bytesEq(a, b)
	}
	h["verifKnown"] = func(in *Interp, caller *frame, fn *ssa.Function, args []Value) Value {
		id := strArg(in, args[0])
		c := args[1].(*Term)
		if !in.knownOpen(id) {
			return TT.False
		}
		if in.branch(c) {
			in.run.curKnown = id
			in.run.knownHit[id]++
			return TT.True
		}
		return TT.False
	}
	h["verifMaxAlloc"] = func(in *Interp, caller *frame, fn *ssa.Function, args []Value) Value {
		res := intT(0)
		for _, a := range in.allocs {
			res = Ite(Slt(res, a), a, res)
		}
		return res
	}
	h["verifAllocLimit"] = func(in *Interp, caller *frame, fn *ssa.Function, args []Value) Value {
		in.allocLimitName = strArg(in, args[0])
		in.allocLimit = Resize(args[1].(*Term), 64, true)
		return nil
	}
	h["verifFill"] = func(in *Interp, caller *frame, fn *ssa.Function, args []Value) Value {
		return in.verifFill(args)
	}
	h["verifConfig"] = func(in *Interp, caller *frame, fn *ssa.Function, args []Value) Value {
		if in.config == nil {
			in.config = map[string]bool{}
		}
		in.config[strArg(in, args[0])] = true
		return nil
	}
	// write-set tracking (C20 confinement): verifWriteWatch() marks "now";
	// verifForeignWrites() = number of stores since then into cells that existed
	// before the mark (package state, caller-owned objects), not counting the
	// sync.Map plan caches.
	h["verifWriteWatch"] = func(in *Interp, caller *frame, fn *ssa.Function, args []Value) Value {
		in.writeMark = in.cellSeq
		in.foreignWrites = nil
		return nil
	}
	h["verifForeignWrites"] = func(in *Interp, caller *frame, fn *ssa.Function, args []Value) Value {
		return intT(int64(len(in.foreignWrites)))
	}
	// concrete data from the repository under analysis (test vectors): the file is
	// read when the harness runs, never cached across runs
	h["verifReadRepoFile"] = func(in *Interp, caller *frame, fn *ssa.Function, args []Value) Value {
		rel := strArg(in, args[0])
		b, err := os.ReadFile(filepath.Join(repoRoot, filepath.Clean("/"+rel)))
		if err != nil {
			in.unsupported("verifReadRepoFile %s: %v", rel, err)
		}
		bs := make([]*Term, len(b))
		for i, c := range b {
			bs[i] = Const(8, uint64(c))
		}
		if len(bs) == 0 {
			return in.bytesToSlice(nil)
		}
		return in.bytesToSlice(bs)
	}
	h["verifListRepoDir"] = func(in *Interp, caller *frame, fn *ssa.Function, args []Value) Value {
		rel := strArg(in, args[0])
		ents, err := os.ReadDir(filepath.Join(repoRoot, filepath.Clean("/"+rel)))
		if err != nil {
			in.unsupported("verifListRepoDir %s: %v", rel, err)
		}
		var names []string
		for _, e := range ents {
			if !e.IsDir() {
				names = append(names, e.Name())
			}
		}
		sort.Strings(names)
		return mkStr(strings.Join(names, "\n"))
	}
	// number of timers (time.AfterFunc) that have fired so far on this path
	h["verifTimersFired"] = func(in *Interp, caller *frame, fn *ssa.Function, args []Value) Value {
		if in.sched == nil {
			return intT(0)
		}
		return intT(int64(in.sched.timersFired))
	}
	h["verifSymbolic"] = func(in *Interp, caller *frame, fn *ssa.Function, args []Value) Value { return TT.True }
	h["verifIsOpaque"] = func(in *Interp, caller *frame, fn *ssa.Function, args []Value) Value {
		return BoolT(args[0].(*StrV).opaque != "")
	}
	h["verifYield"] = func(in *Interp, caller *frame, fn *ssa.Function, args []Value) Value {
		if in.sched != nil {
			in.sched.yield(in.g, "verifYield")
		}
		return nil
	}

	// -------------------------------------------------------------------
	I := intrinsics
	ident := func(in *Interp, caller *frame, fn *ssa.Function, args []Value) Value { return args[0] }
	nop := func(in *Interp, caller *frame, fn *ssa.Function, args []Value) Value { return in.zeroResult(fn) }
	I["internal/abi.NoEscape"] = ident
	I["internal/abi.Escape"] = ident
	I["runtime.KeepAlive"] = nop
	I["runtime.Gosched"] = nop
	I["runtime.SetFinalizer"] = nop
	I["runtime/debug.Stack"] = func(in *Interp, caller *frame, fn *ssa.Function, args []Value) Value {
		return in.bytesToSlice(mkStr("<stack>").b)
	}
	I["runtime/debug.PrintStack"] = nop
	I["internal/bytealg.MakeNoZero"] = func(in *Interp, caller *frame, fn *ssa.Function, args []Value) Value {
		n := int(in.concInt(args[0].(*Term), "MakeNoZero"))
		return in.mkSlice(types.Typ[types.Uint8], n, n)
	}
	I["internal/bytealg.IndexByteString"] = func(in *Interp, caller *frame, fn *ssa.Function, args []Value) Value {
		s := args[0].(*StrV)
		if s.opaque != "" {
			in.unsupported("IndexByte on opaque string")
		}
		return in.indexByte(s.b, args[1].(*Term))
	}
	I["internal/bytealg.IndexByte"] = func(in *Interp, caller *frame, fn *ssa.Function, args []Value) Value {
		return in.indexByte(in.sliceBytes(args[0].(*SliceV)), args[1].(*Term))
	}
	I["internal/bytealg.CountString"] = func(in *Interp, caller *frame, fn *ssa.Function, args []Value) Value {
		return in.countByte(args[0].(*StrV).b, args[1].(*Term))
	}
	I["internal/bytealg.Count"] = func(in *Interp, caller *frame, fn *ssa.Function, args []Value) Value {
		return in.countByte(in.sliceBytes(args[0].(*SliceV)), args[1].(*Term))
	}
	I["internal/bytealg.Equal"] = func(in *Interp, caller *frame, fn *ssa.Function, args []Value) Value {
		return in.bytesEq(args[0].(*SliceV), args[1].(*SliceV))
	}
	I["bytes.Equal"] = I["internal/bytealg.Equal"]
	I["internal/bytealg.Compare"] = func(in *Interp, caller *frame, fn *ssa.Function, args []Value) Value {
		a, b := &StrV{b: in.sliceBytes(args[0].(*SliceV))}, &StrV{b: in.sliceBytes(args[1].(*SliceV))}
		return in.cmp3(a, b)
	}
	I["internal/bytealg.CompareString"] = func(in *Interp, caller *frame, fn *ssa.Function, args []Value) Value {
		return in.cmp3(args[0].(*StrV), args[1].(*StrV))
	}
	I["strings.Compare"] = I["internal/bytealg.CompareString"]
	I["cmp.Compare[string]"] = I["internal/bytealg.CompareString"]
	I["internal/stringslite.HasPrefix"] = func(in *Interp, caller *frame, fn *ssa.Function, args []Value) Value {
		s, p := args[0].(*StrV), args[1].(*StrV)
		if s.opaque != "" {
			in.unsupported("HasPrefix on opaque string")
		}
		if len(s.b) < len(p.b) {
			return TT.False
		}
		return in.equalTerm(&StrV{b: s.b[:len(p.b)]}, p)
	}
	I["strings.HasPrefix"] = I["internal/stringslite.HasPrefix"]
	I["strings.ToUpper"] = func(in *Interp, caller *frame, fn *ssa.Function, args []Value) Value {
		s := args[0].(*StrV)
		if c, ok := s.concrete(); ok {
			return mkStr(strings.ToUpper(c))
		}
		// per-byte model; ASCII only (asserted)
		out := make([]*Term, len(s.b))
		for i, b := range s.b {
			if in.branch(BNot(Ult(b, Const(8, 0x80)))) {
				in.unsupported("strings.ToUpper on non-ASCII symbolic byte")
			}
			isLower := BAnd(Ule(Const(8, 'a'), b), Ule(b, Const(8, 'z')))
			out[i] = Ite(isLower, Sub(b, Const(8, 32)), b)
		}
		return &StrV{b: out}
	}

	// formatting of symbolic tags/types is only ever used for error messages
	opaqueIfSym := func(name string) {
		I[name] = func(in *Interp, caller *frame, fn *ssa.Function, args []Value) Value {
			if t, ok := args[0].(*Term); ok && !in.simp(t).IsConst() && !in.config["real-names"] {
				return in.opaqueStr(name)
			}
			return in.callSSABody(caller, fn, args)
		}
	}
	opaqueIfSym("(github.com/ovh/kmip-go/ttlv.Type).String")
	opaqueIfSym("github.com/ovh/kmip-go/ttlv.TagString")
	opaqueIfSym("github.com/ovh/kmip-go/ttlv.EnumStr")

	// errors
	I["errors.Is"] = func(in *Interp, caller *frame, fn *ssa.Function, args []Value) Value {
		return BoolT(in.errorsIs(caller, args[0], args[1]))
	}
	I["errors.As"] = func(in *Interp, caller *frame, fn *ssa.Function, args []Value) Value {
		return BoolT(in.errorsAs(caller, args[0], args[1]))
	}

	// fmt
	I["fmt.Errorf"] = func(in *Interp, caller *frame, fn *ssa.Function, args []Value) Value {
		return in.fmtErrorf(caller, args[0].(*StrV), args[1].(*SliceV))
	}
	I["fmt.Sprintf"] = func(in *Interp, caller *frame, fn *ssa.Function, args []Value) Value {
		return in.sprintf(caller, args[0].(*StrV), in.sliceValues(args[1].(*SliceV)))
	}
	I["fmt.Appendf"] = func(in *Interp, caller *frame, fn *ssa.Function, args []Value) Value {
		s := in.sprintf(caller, args[1].(*StrV), in.sliceValues(args[2].(*SliceV)))
		if s.opaque != "" {
			in.unsupported("fmt.Appendf with a result that cannot be modelled")
		}
		return in.appendOp(args[0].(*SliceV), s, types.NewSlice(types.Typ[types.Uint8]))
	}
	I["fmt.Sprint"] = func(in *Interp, caller *frame, fn *ssa.Function, args []Value) Value {
		return in.opaqueStr("fmt.Sprint")
	}
	I["fmt.Sprintln"] = I["fmt.Sprint"]
	for _, n := range []string{"fmt.Println", "fmt.Printf", "fmt.Print", "fmt.Fprintf", "fmt.Fprintln", "fmt.Fprint"} {
		I[n] = nop
	}

	// time
	I["(time.Duration).Seconds"] = func(in *Interp, caller *frame, fn *ssa.Function, args []Value) Value {
		d := args[0].(*Term)
		if d.IsConst() {
			return float64(d.Int()) / 1e9
		}
		// d = x * 1e9 with x small enough for the product not to wrap: x seconds
		// (decided from the intervals the path condition implies, no solver)
		d = in.simp(d)
		if d.op == OpMul && d.args[1].op == OpConst && d.args[1].val == 1000000000 {
			x := d.args[0]
			if in.rangeOf(x, 0).hi <= (1<<63-1)/1000000000 {
				return &FloatV{num: x, sym: true}
			}
		}
		// whole seconds only (stated bound): assert d % 1e9 == 0 on this path
		if in.branch(BNot(Eq(SRem(d, intT(1e9)), intT(0)))) {
			in.unsupported("Duration.Seconds with sub-second symbolic duration")
		}
		return &FloatV{num: SDiv(d, intT(1e9)), sym: true}
	}
	I["time.Now"] = func(in *Interp, caller *frame, fn *ssa.Function, args []Value) Value {
		name := in.freshName("time.Now")
		sec := Var(name, 64)
		in.assume(BAnd(Slt(intT(0), sec), Slt(sec, intT(1<<40))))
		f := in.stdFunc("time", "Unix")
		return in.callSSA(caller, 0, f, []Value{sec, intT(0)}, nil)
	}
	I["time.Sleep"] = nop
	I["regexp.MustCompile"] = func(in *Interp, caller *frame, fn *ssa.Function, args []Value) Value { return (*Cell)(nil) }
	I["time.runtimeNano"] = func(in *Interp, caller *frame, fn *ssa.Function, args []Value) Value { return intT(0) }
}

func (in *Interp) indexByte(b []*Term, c *Term) Value {
	for i, x := range b {
		if in.branch(Eq(x, c)) {
			return intT(int64(i))
		}
	}
	return intT(-1)
}

func (in *Interp) countByte(b []*Term, c *Term) Value {
	n := intT(0)
	for _, x := range b {
		n = Add(n, Ite(Eq(x, c), intT(1), intT(0)))
	}
	return n
}

func (in *Interp) bytesEq(a, b *SliceV) *Term {
	lenEq := Eq(a.len_, b.len_)
	if lenEq.IsFalse() {
		return lenEq
	}
	if !lenEq.IsTrue() {
		if !in.branch(lenEq) {
			return TT.False
		}
	}
	n := in.sliceLen(a)
	r := TT.True
	for i := 0; i < n; i++ {
		r = BAnd(r, Eq(in.sliceElem(a, i).v.(*Term), in.sliceElem(b, i).v.(*Term)))
	}
	return r
}

func (in *Interp) cmp3(a, b *StrV) Value {
	lt := in.strLess(a, b)
	eq := in.equalTerm(a, b)
	return Ite(eq, intT(0), Ite(lt, intT(-1), intT(1)))
}

// ---------------------------------------------------------------------------
// errors

func (in *Interp) namedType(pkg, name string) types.Type {
	p := in.prog.ImportedPackage(pkg)
	if p == nil {
		panic("package not loaded: " + pkg)
	}
	return p.Type(name).Type()
}

// mkError builds an *errors.errorString with the given (concrete) message.
func (in *Interp) mkError(msg string) *IfaceV {
	return in.mkErrorStr(mkStr(msg))
}

func (in *Interp) mkErrorStr(s *StrV) *IfaceV {
	t := in.namedType("errors", "errorString")
	c := in.alloc(t)
	c.kids[0].v = s
	return &IfaceV{t: types.NewPointer(t), v: c}
}

var errorIface = types.Universe.Lookup("error").Type().Underlying().(*types.Interface)

func (in *Interp) callMethod(caller *frame, recv *IfaceV, name string, args ...Value) (Value, bool) {
	ms := in.prog.MethodSets.MethodSet(recv.t)
	for i := 0; i < ms.Len(); i++ {
		sel := ms.At(i)
		if sel.Obj().Name() == name {
			fn := in.prog.MethodValue(sel)
			if fn == nil {
				return nil, false
			}
			return in.callSSA(caller, 0, fn, append([]Value{recv.v}, args...), nil), true
		}
	}
	return nil, false
}

func (in *Interp) methodSig(t types.Type, name string) *types.Signature {
	ms := in.prog.MethodSets.MethodSet(t)
	for i := 0; i < ms.Len(); i++ {
		if ms.At(i).Obj().Name() == name {
			return ms.At(i).Type().(*types.Signature)
		}
	}
	return nil
}

func (in *Interp) errorsIs(caller *frame, errV, targetV Value) bool {
	err, _ := errV.(*IfaceV)
	target, _ := targetV.(*IfaceV)
	if err == nil || target == nil {
		return err == nil && target == nil
	}
	comparable := types.Comparable(target.t)
	var walk func(e *IfaceV) bool
	walk = func(e *IfaceV) bool {
		for e != nil {
			if comparable && types.Identical(e.t, target.t) {
				if in.branch(in.equalTerm(e.v, target.v)) {
					return true
				}
			}
			if sig := in.methodSig(e.t, "Is"); sig != nil && sig.Params().Len() == 1 && sig.Results().Len() == 1 {
				r, _ := in.callMethod(caller, e, "Is", target)
				if in.branch(r.(*Term)) {
					return true
				}
			}
			sig := in.methodSig(e.t, "Unwrap")
			if sig == nil || sig.Params().Len() != 0 || sig.Results().Len() != 1 {
				return false
			}
			r, _ := in.callMethod(caller, e, "Unwrap")
			switch x := r.(type) {
			case *IfaceV:
				e = x
			case *SliceV:
				for _, v := range in.sliceValues(x) {
					if iv, _ := v.(*IfaceV); iv != nil && walk(iv) {
						return true
					}
				}
				return false
			default:
				return false
			}
		}
		return false
	}
	return walk(err)
}

func (in *Interp) errorsAs(caller *frame, errV, targetV Value) bool {
	err, _ := errV.(*IfaceV)
	target, _ := targetV.(*IfaceV)
	if err == nil {
		return false
	}
	if target == nil {
		in.goPanic(&goPanic{kind: "user", msg: "errors: target cannot be nil"})
	}
	pt, ok := target.t.(*types.Pointer)
	if !ok {
		in.goPanic(&goPanic{kind: "user", msg: "errors: target must be a non-nil pointer"})
	}
	tt := pt.Elem()
	cell := target.v.(*Cell)
	var walk func(e *IfaceV) bool
	walk = func(e *IfaceV) bool {
		for e != nil {
			if it, isI := tt.Underlying().(*types.Interface); isI {
				if types.Implements(e.t, it) {
					in.store(cell, e)
					return true
				}
			} else if types.Identical(e.t, tt) {
				in.store(cell, e.v)
				return true
			}
			if sig := in.methodSig(e.t, "As"); sig != nil && sig.Params().Len() == 1 && sig.Results().Len() == 1 {
				r, _ := in.callMethod(caller, e, "As", target)
				if in.branch(r.(*Term)) {
					return true
				}
			}
			sig := in.methodSig(e.t, "Unwrap")
			if sig == nil || sig.Params().Len() != 0 || sig.Results().Len() != 1 {
				return false
			}
			r, _ := in.callMethod(caller, e, "Unwrap")
			switch x := r.(type) {
			case *IfaceV:
				e = x
			case *SliceV:
				for _, v := range in.sliceValues(x) {
					if iv, _ := v.(*IfaceV); iv != nil && walk(iv) {
						return true
					}
				}
				return false
			default:
				return false
			}
		}
		return false
	}
	return walk(err)
}

// ---------------------------------------------------------------------------
// fmt

func (in *Interp) fmtErrorf(caller *frame, format *StrV, argv *SliceV) Value {
	args := in.sliceValues(argv)
	f, _ := format.concrete()
	msg := in.sprintf(caller, format, args)
	if i := strings.Index(f, "%w"); i >= 0 {
		// find the operand of %w: count verbs before it
		n := 0
		for j := 0; j < i; j++ {
			if f[j] == '%' {
				if j+1 < len(f) && f[j+1] == '%' {
					j++
					continue
				}
				n++
			}
		}
		if n < len(args) {
			if w, _ := args[n].(*IfaceV); w != nil && types.Implements(w.t, errorIface) {
				t := in.namedType("fmt", "wrapError")
				c := in.alloc(t)
				c.kids[0].v = msg
				c.kids[1].v = w
				return &IfaceV{t: types.NewPointer(t), v: c}
			}
		}
	}
	return in.mkErrorStr(msg)
}

// goString renders an argument for %s/%v: calls Error()/String() when present.
func (in *Interp) fmtOperand(caller *frame, v Value) (Value, types.Type) {
	iv, _ := v.(*IfaceV)
	if iv == nil {
		return mkStr("<nil>"), types.Typ[types.String]
	}
	if _, isModel := iv.v.(*RType); isModel {
		return in.opaqueStr("type"), types.Typ[types.String]
	}
	if sig := in.methodSig(iv.t, "Error"); sig != nil && sig.Params().Len() == 0 {
		if c, ok := iv.v.(*Cell); ok && c == nil {
			return mkStr("<nil>"), types.Typ[types.String]
		}
		r, _ := in.callMethod(caller, iv, "Error")
		return r, types.Typ[types.String]
	}
	if sig := in.methodSig(iv.t, "String"); sig != nil && sig.Params().Len() == 0 {
		if c, ok := iv.v.(*Cell); ok && c == nil {
			return mkStr("<nil>"), types.Typ[types.String]
		}
		r, _ := in.callMethod(caller, iv, "String")
		return r, types.Typ[types.String]
	}
	return iv.v, iv.t
}

// sprintf models the verbs the library's output depends on; anything else
// gives an opaque string.
func (in *Interp) sprintf(caller *frame, format *StrV, args []Value) *StrV {
	f, ok := format.concrete()
	if !ok {
		return in.opaqueStr("fmt")
	}
	var out []*Term
	lit := func(s string) { out = append(out, mkStr(s).b...) }
	ai := 0
	for i := 0; i < len(f); i++ {
		if f[i] != '%' {
			out = append(out, Const(8, uint64(f[i])))
			continue
		}
		i++
		if i >= len(f) {
			return in.opaqueStr("fmt")
		}
		if f[i] == '%' {
			lit("%")
			continue
		}
		zero := false
		plus := false
		for i < len(f) && (f[i] == '0' || f[i] == '+' || f[i] == '#' || f[i] == '-' || f[i] == ' ') {
			if f[i] == '0' {
				zero = true
			} else if f[i] == '+' {
				plus = true
			} else {
				return in.opaqueStr("fmt")
			}
			i++
		}
		width := 0
		for i < len(f) && f[i] >= '0' && f[i] <= '9' {
			width = width*10 + int(f[i]-'0')
			i++
		}
		if i >= len(f) || ai >= len(args) {
			return in.opaqueStr("fmt")
		}
		verb := f[i]
		arg := args[ai]
		ai++
		switch verb {
		case 'x', 'X':
			iv, _ := arg.(*IfaceV)
			if iv == nil {
				return in.opaqueStr("fmt")
			}
			t, ok := iv.v.(*Term)
			if !ok || t.IsBool() || isSigned(iv.t) && !t.IsConst() {
				return in.opaqueStr("fmt")
			}
			if isSigned(iv.t) && t.Int() < 0 {
				return in.opaqueStr("fmt")
			}
			// number of significant nibbles: fork
			nn := t.Width() / 4
			digits := 1
			for d := nn; d > 1; d-- {
				if in.branch(BNot(Eq(Extract(t, t.Width()-1, (d-1)*4), Const(t.Width()-(d-1)*4, 0)))) {
					digits = d
					break
				}
			}
			pad := width - digits
			hexStart := len(out)
			if !zero {
				hexStart += max(pad, 0)
			}
			for ; pad > 0; pad-- {
				if zero {
					lit("0")
				} else {
					lit(" ")
				}
			}
			tab := "0123456789abcdef"
			if verb == 'X' {
				tab = "0123456789ABCDEF"
			}
			for d := digits - 1; d >= 0; d-- {
				nib := Extract(t, d*4+3, d*4)
				if nib.IsConst() {
					out = append(out, Const(8, uint64(tab[nib.val])))
					continue
				}
				var r *Term = Const(8, uint64(tab[15]))
				for k := 14; k >= 0; k-- {
					r = Ite(Eq(nib, Const(4, uint64(k))), Const(8, uint64(tab[k])), r)
				}
				out = append(out, r)
			}
			if !t.IsConst() {
				in.numRecord(append([]*Term(nil), out[hexStart:]...), &numEntry{val: ZExt(t, 64), base: 16})
			}
		case 'd':
			iv, _ := arg.(*IfaceV)
			if iv == nil {
				return in.opaqueStr("fmt")
			}
			t, ok := iv.v.(*Term)
			if !ok || !t.IsConst() || t.IsBool() {
				return in.opaqueStr("fmt")
			}
			var s string
			if isSigned(iv.t) {
				s = fmt.Sprintf("%d", t.Int())
			} else {
				s = fmt.Sprintf("%d", t.Uint())
			}
			if plus && t.Int() >= 0 {
				s = "+" + s
			}
			for pad := width - len(s); pad > 0; pad-- {
				if zero {
					lit("0")
				} else {
					lit(" ")
				}
			}
			lit(s)
		case 's', 'v', 'q', 'w':
			if verb == 'q' || width != 0 {
				// %q of concrete strings
				v, _ := in.fmtOperand(caller, arg)
				if sv, ok := v.(*StrV); ok {
					if c, ok := sv.concrete(); ok && width == 0 {
						lit(fmt.Sprintf("%q", c))
						continue
					}
				}
				return in.opaqueStr("fmt")
			}
			v, t := in.fmtOperand(caller, arg)
			switch x := v.(type) {
			case *StrV:
				if x.opaque != "" {
					return in.opaqueStr("fmt")
				}
				out = append(out, x.b...)
			case *Term:
				if !x.IsConst() {
					return in.opaqueStr("fmt")
				}
				if x.IsBool() {
					lit(fmt.Sprint(x.val != 0))
				} else if isSigned(t) {
					lit(fmt.Sprint(x.Int()))
				} else {
					lit(fmt.Sprint(x.Uint()))
				}
			default:
				return in.opaqueStr("fmt")
			}
		default:
			return in.opaqueStr("fmt")
		}
	}
	return &StrV{b: out}
}

// ---------------------------------------------------------------------------
// floats (Duration.Seconds kernel only)

func (in *Interp) floatBinop(op fmt.Stringer, x, y Value) Value {
	in.unsupported("floating point arithmetic on symbolic value (%s)", op)
	return nil
}

func (in *Interp) floatToInt(f *FloatV, w int) Value {
	if !f.sym {
		return Const(w, uint64(int64(f.f)))
	}
	return Resize(f.num, w, true)
}

// ---------------------------------------------------------------------------
// mutation watch

func (in *Interp) watchStore(c *Cell, v Value) {
	root := c.par
	if root == nil || !in.watch[root] {
		return
	}
	old, ok1 := c.v.(*Term)
	nv, ok2 := v.(*Term)
	if !ok1 || !ok2 || old == nv {
		return
	}
	in.watchQuery(c, BNot(Eq(old, nv)))
}

func (in *Interp) watchQuery(c *Cell, diff *Term) {
	root := c.par
	if diff.IsFalse() {
		return
	}
	r, m := in.checkSat(diff, true)
	if r == Sat {
		where := ""
		var stack []string
		if in.cur != nil {
			where = in.cur.fn.String() + " @ " + in.fset.Position(in.cur.pos).String()
			for f := in.cur; f != nil && len(stack) < 8; f = f.caller {
				stack = append(stack, f.fn.String())
			}
		}
		in.violation("mutation", "input-mutated", fmt.Sprintf("input buffer byte %d overwritten at %s", c.idx, where), m, stack)
		// report once per path: stop watching this object
		delete(in.watch, root)
	}
}

func sortedKeys[V any](m map[string]V) []string {
	ks := make([]string, 0, len(m))
	for k := range m {
		ks = append(ks, k)
	}
	sort.Strings(ks)
	return ks
}
