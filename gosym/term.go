package main

// Hash-consed SMT terms over bit-vectors (widths 1..64) and Bool, with
// constant folding and local rewriting. Everything that stays symbolic is
// printed as SMT-LIB2 for the solver (solver.go).

import (
	"fmt"
	"math/bits"
	"sort"
	"strings"
)

type Op uint8

const (
	OpConst  Op = iota // bit-vector constant (val, w)
	OpBConst           // boolean constant (val != 0)
	OpVar              // bit-vector variable
	OpBVar             // boolean variable
	OpNot              // bvnot
	OpNeg
	OpAnd
	OpOr
	OpXor
	OpAdd
	OpSub
	OpMul
	OpUDiv
	OpURem
	OpSDiv
	OpSRem
	OpShl
	OpLShr
	OpAShr
	OpConcat
	OpExtract // val = hi<<8 | lo
	OpZExt    // to width w
	OpSExt
	OpEq // bool result; args same sort (bv or bool)
	OpUlt
	OpUle
	OpSlt
	OpSle
	OpBNot
	OpBAnd
	OpBOr
	OpIte // cond bool, then, else (bv or bool)
)

var opNames = [...]string{"const", "bconst", "var", "bvar", "bvnot", "bvneg", "bvand", "bvor", "bvxor", "bvadd", "bvsub", "bvmul",
	"bvudiv", "bvurem", "bvsdiv", "bvsrem", "bvshl", "bvlshr", "bvashr", "concat", "extract", "zero_extend", "sign_extend",
	"=", "bvult", "bvule", "bvslt", "bvsle", "not", "and", "or", "ite"}

// Term is an immutable hash-consed SMT term. w == 0 means Bool.
type Term struct {
	op   Op
	w    uint8
	val  uint64
	name string
	args []*Term
	id   int
	size int // number of nodes (tree size, saturating)
	sym  bool
}

type termKey struct {
	op         Op
	w          uint8
	val        uint64
	name       string
	a0, a1, a2 int
}

type TermTable struct {
	tab   map[termKey]*Term
	next  int
	vars  []*Term
	True  *Term
	False *Term
	mark, varMark int
}

// Mark remembers the terms that exist now (program initialisation); Purge drops
// every term created since from the table so that the memory of finished jobs
// can be reclaimed. Identifiers are never reused.
func (tt *TermTable) Mark() { tt.mark, tt.varMark = tt.next, len(tt.vars) }

func (tt *TermTable) Purge() {
	if tt.mark == 0 {
		return
	}
	for k, t := range tt.tab {
		if t.id >= tt.mark {
			delete(tt.tab, k)
		}
	}
	if len(tt.vars) > tt.varMark {
		tt.vars = tt.vars[:tt.varMark]
	}
}

var TT = newTermTable()

func newTermTable() *TermTable {
	t := &TermTable{tab: map[termKey]*Term{}}
	t.True = t.mk(OpBConst, 0, 1, "")
	t.False = t.mk(OpBConst, 0, 0, "")
	return t
}

func (tt *TermTable) mk(op Op, w uint8, val uint64, name string, args ...*Term) *Term {
	k := termKey{op: op, w: w, val: val, name: name, a0: -1, a1: -1, a2: -1}
	if len(args) > 0 {
		k.a0 = args[0].id
	}
	if len(args) > 1 {
		k.a1 = args[1].id
	}
	if len(args) > 2 {
		k.a2 = args[2].id
	}
	if len(args) > 3 {
		panic("too many args")
	}
	if t, ok := tt.tab[k]; ok {
		return t
	}
	t := &Term{op: op, w: w, val: val, name: name, id: tt.next, size: 1}
	tt.next++
	if len(args) > 0 {
		t.args = append([]*Term(nil), args...)
		for _, a := range args {
			t.size += a.size
			if a.sym {
				t.sym = true
			}
		}
		if t.size > 1<<30 {
			t.size = 1 << 30
		}
	}
	if op == OpVar || op == OpBVar {
		t.sym = true
		tt.vars = append(tt.vars, t)
	}
	tt.tab[k] = t
	return t
}

func mask(w uint8) uint64 {
	if w >= 64 {
		return ^uint64(0)
	}
	return (uint64(1) << w) - 1
}

func (t *Term) IsConst() bool  { return t.op == OpConst || t.op == OpBConst }
func (t *Term) IsBool() bool   { return t.w == 0 }
func (t *Term) IsTrue() bool   { return t.op == OpBConst && t.val != 0 }
func (t *Term) IsFalse() bool  { return t.op == OpBConst && t.val == 0 }
func (t *Term) Width() int     { return int(t.w) }
func (t *Term) Uint() uint64   { return t.val }
func (t *Term) Symbolic() bool { return t.sym }

// Int returns the constant as a sign-extended int64.
func (t *Term) Int() int64 { return sext(t.val, t.w) }

func sext(v uint64, w uint8) int64 {
	if w >= 64 {
		return int64(v)
	}
	sh := 64 - uint(w)
	return int64(v<<sh) >> sh
}

func Const(w int, v uint64) *Term {
	if w <= 0 || w > 64 {
		panic(fmt.Sprintf("bad width %d", w))
	}
	return TT.mk(OpConst, uint8(w), v&mask(uint8(w)), "")
}
func BoolT(b bool) *Term {
	if b {
		return TT.True
	}
	return TT.False
}
func Var(name string, w int) *Term  { return TT.mk(OpVar, uint8(w), 0, name) }
func BoolVar(name string) *Term     { return TT.mk(OpBVar, 0, 0, name) }
func mkbv(op Op, w uint8, args ...*Term) *Term { return TT.mk(op, w, 0, "", args...) }

func checkSame(a, b *Term) {
	if a.w != b.w {
		panic(fmt.Sprintf("width mismatch %d vs %d (%s, %s)", a.w, b.w, a, b))
	}
}

func Not(a *Term) *Term {
	if a.op == OpConst {
		return Const(int(a.w), ^a.val)
	}
	if a.op == OpNot {
		return a.args[0]
	}
	return mkbv(OpNot, a.w, a)
}

func Neg(a *Term) *Term {
	if a.op == OpConst {
		return Const(int(a.w), -a.val)
	}
	if a.op == OpNeg {
		return a.args[0]
	}
	return mkbv(OpNeg, a.w, a)
}

func commut(a, b *Term) (*Term, *Term) {
	// constants to the right
	if a.op == OpConst && b.op != OpConst {
		return b, a
	}
	if a.op != OpConst && b.op != OpConst && a.id > b.id {
		return b, a
	}
	return a, b
}

func And(a, b *Term) *Term {
	checkSame(a, b)
	a, b = commut(a, b)
	if a.op == OpConst && b.op == OpConst {
		return Const(int(a.w), a.val&b.val)
	}
	if b.op == OpConst {
		if b.val == 0 {
			return b
		}
		if b.val == mask(a.w) {
			return a
		}
		// x & low-mask  ==> zext(extract(x))
		if m := b.val; m&(m+1) == 0 {
			n := bits.Len64(m)
			return ZExt(Extract(a, n-1, 0), int(a.w))
		}
		// zext(x) & c: push into narrower width
		if a.op == OpZExt {
			in := a.args[0]
			return ZExt(And(in, Const(int(in.w), b.val)), int(a.w))
		}
	}
	if a == b {
		return a
	}
	return mkbv(OpAnd, a.w, a, b)
}

// known-zero bit mask (conservative)
func knownZero(t *Term) uint64 {
	switch t.op {
	case OpConst:
		return ^t.val & mask(t.w)
	case OpZExt:
		in := t.args[0]
		return (mask(t.w) &^ mask(in.w)) | knownZero(in)
	case OpShl:
		if t.args[1].op == OpConst {
			s := t.args[1].val
			if s >= uint64(t.w) {
				return mask(t.w)
			}
			return ((knownZero(t.args[0]) << s) | ((uint64(1) << s) - 1)) & mask(t.w)
		}
	case OpLShr:
		if t.args[1].op == OpConst {
			s := t.args[1].val
			if s >= uint64(t.w) {
				return mask(t.w)
			}
			return ((knownZero(t.args[0]) >> s) | (mask(t.w) &^ (mask(t.w) >> s))) & mask(t.w)
		}
	case OpAnd:
		return knownZero(t.args[0]) | knownZero(t.args[1])
	case OpOr, OpXor:
		return knownZero(t.args[0]) & knownZero(t.args[1])
	case OpConcat:
		lo := t.args[1]
		return (knownZero(t.args[0]) << lo.w) | knownZero(lo)
	case OpIte:
		return knownZero(t.args[1]) & knownZero(t.args[2])
	}
	return 0
}

func Or(a, b *Term) *Term {
	checkSame(a, b)
	a, b = commut(a, b)
	if a.op == OpConst && b.op == OpConst {
		return Const(int(a.w), a.val|b.val)
	}
	if b.op == OpConst {
		if b.val == 0 {
			return a
		}
		if b.val == mask(a.w) {
			return b
		}
	}
	if a == b {
		return a
	}
	if (a.op == OpZExt || a.op == OpConcat) && (b.op == OpZExt || b.op == OpConcat) {
		if m := orMerge(a, b); m != nil {
			return m
		}
	}
	return mkbv(OpOr, a.w, a, b)
}

// bit segments of a term, most significant first; t == nil: zeros
type bitSeg struct {
	t *Term
	w int
}

func bitSegs(t *Term, out []bitSeg) []bitSeg {
	switch t.op {
	case OpConst:
		if t.val == 0 {
			return append(out, bitSeg{nil, int(t.w)})
		}
	case OpZExt:
		out = append(out, bitSeg{nil, int(t.w) - int(t.args[0].w)})
		return bitSegs(t.args[0], out)
	case OpConcat:
		out = bitSegs(t.args[0], out)
		return bitSegs(t.args[1], out)
	}
	return append(out, bitSeg{t, int(t.w)})
}

// orMerge: a | b where, bit range by bit range, at most one side is not zero
// (bytes shifted into place and or-ed together): the concatenation of the
// non-zero pieces. nil if the sides overlap.
func orMerge(a, b *Term) *Term {
	sa, sb := bitSegs(a, nil), bitSegs(b, nil)
	var pieces []bitSeg
	i, j := 0, 0
	for i < len(sa) && j < len(sb) {
		x, y := sa[i], sb[j]
		w := x.w
		if y.w < w {
			w = y.w
		}
		take := func(s *bitSeg) bitSeg {
			// top w bits of s; s keeps the rest
			if s.w == w {
				r := *s
				s.w = 0
				return r
			}
			var top *Term
			if s.t != nil {
				top = Extract(s.t, s.w-1, s.w-w)
				s.t = Extract(s.t, s.w-w-1, 0)
			}
			s.w -= w
			return bitSeg{top, w}
		}
		px, py := take(&sa[i]), take(&sb[j])
		switch {
		case px.t == nil:
			pieces = append(pieces, py)
		case py.t == nil:
			pieces = append(pieces, px)
		default:
			return nil
		}
		if sa[i].w == 0 {
			i++
		}
		if sb[j].w == 0 {
			j++
		}
	}
	// fold from the least significant piece so that neighbouring extracts of one
	// term fuse before the zero prefix is added
	var res *Term
	for k := len(pieces) - 1; k >= 0; k-- {
		t := pieces[k].t
		if t == nil {
			t = Const(pieces[k].w, 0)
		}
		if res == nil {
			res = t
		} else {
			res = Concat(t, res)
		}
	}
	if res == nil || res.w != a.w {
		return nil
	}
	return res
}

func Xor(a, b *Term) *Term {
	checkSame(a, b)
	a, b = commut(a, b)
	if a.op == OpConst && b.op == OpConst {
		return Const(int(a.w), a.val^b.val)
	}
	if b.op == OpConst {
		if b.val == 0 {
			return a
		}
		if b.val == mask(a.w) {
			return Not(a)
		}
	}
	if a == b {
		return Const(int(a.w), 0)
	}
	return mkbv(OpXor, a.w, a, b)
}

func Add(a, b *Term) *Term {
	checkSame(a, b)
	a, b = commut(a, b)
	if a.op == OpConst && b.op == OpConst {
		return Const(int(a.w), a.val+b.val)
	}
	if b.op == OpConst {
		if b.val == 0 {
			return a
		}
		// (x + c1) + c2
		if a.op == OpAdd && a.args[1].op == OpConst {
			return Add(a.args[0], Const(int(a.w), a.args[1].val+b.val))
		}
	}
	return mkbv(OpAdd, a.w, a, b)
}

func Sub(a, b *Term) *Term {
	checkSame(a, b)
	if a.op == OpConst && b.op == OpConst {
		return Const(int(a.w), a.val-b.val)
	}
	if b.op == OpConst {
		return Add(a, Const(int(a.w), -b.val))
	}
	if a == b {
		return Const(int(a.w), 0)
	}
	// (x + c) - x
	if a.op == OpAdd && a.args[0] == b {
		return a.args[1]
	}
	return mkbv(OpSub, a.w, a, b)
}

func Mul(a, b *Term) *Term {
	checkSame(a, b)
	a, b = commut(a, b)
	if a.op == OpConst && b.op == OpConst {
		return Const(int(a.w), a.val*b.val)
	}
	if b.op == OpConst {
		if b.val == 0 {
			return b
		}
		if b.val == 1 {
			return a
		}
		if b.val&(b.val-1) == 0 {
			return Shl(a, Const(int(a.w), uint64(bits.TrailingZeros64(b.val))))
		}
	}
	return mkbv(OpMul, a.w, a, b)
}

// noOverflowMulZext reports whether t = zext(k) * C cannot overflow width w
// (unsigned, and stays non-negative as signed), returning k-as-w and C.
func mulZextParts(t *Term) (k *Term, c uint64, ok bool) {
	if t.op != OpMul || t.args[1].op != OpConst {
		return nil, 0, false
	}
	x, cc := t.args[0], t.args[1].val
	free := bits.LeadingZeros64(knownZero(x)^mask(t.w)) - (64 - int(t.w)) // leading known-zero bits within width
	if free <= 0 {
		return nil, 0, false
	}
	// x < 2^(w-free); need x*c < 2^(w-1)
	if bits.Len64(cc) <= free-1 {
		return x, cc, true
	}
	return nil, 0, false
}

func UDiv(a, b *Term) *Term {
	checkSame(a, b)
	if b.op == OpConst && b.val != 0 {
		if a.op == OpConst {
			return Const(int(a.w), a.val/b.val)
		}
		if b.val == 1 {
			return a
		}
		if b.val&(b.val-1) == 0 {
			return LShr(a, Const(int(a.w), uint64(bits.TrailingZeros64(b.val))))
		}
		if k, c, ok := mulZextParts(a); ok && c == b.val {
			return k
		}
	}
	return mkbv(OpUDiv, a.w, a, b)
}

func URem(a, b *Term) *Term {
	checkSame(a, b)
	if b.op == OpConst && b.val != 0 {
		if a.op == OpConst {
			return Const(int(a.w), a.val%b.val)
		}
		if b.val == 1 {
			return Const(int(a.w), 0)
		}
		if b.val&(b.val-1) == 0 {
			return And(a, Const(int(a.w), b.val-1))
		}
		if _, c, ok := mulZextParts(a); ok && c == b.val {
			return Const(int(a.w), 0)
		}
	}
	return mkbv(OpURem, a.w, a, b)
}

func signBitZero(a *Term) bool {
	return knownZero(a)&(uint64(1)<<(a.w-1)) != 0
}

func SDiv(a, b *Term) *Term {
	checkSame(a, b)
	if b.op == OpConst && b.val != 0 {
		if a.op == OpConst {
			x, y := a.Int(), b.Int()
			if y == -1 {
				return Const(int(a.w), uint64(-x))
			}
			return Const(int(a.w), uint64(x/y))
		}
		if b.val == 1 {
			return a
		}
		if signBitZero(a) && b.Int() > 0 {
			return UDiv(a, b)
		}
		if k, c, ok := mulZextParts(a); ok && c == b.val {
			return k
		}
	}
	return mkbv(OpSDiv, a.w, a, b)
}

func SRem(a, b *Term) *Term {
	checkSame(a, b)
	if b.op == OpConst && b.val != 0 {
		if a.op == OpConst {
			x, y := a.Int(), b.Int()
			if y == -1 {
				return Const(int(a.w), 0)
			}
			return Const(int(a.w), uint64(x%y))
		}
		if signBitZero(a) && b.Int() > 0 {
			return URem(a, b)
		}
		if _, c, ok := mulZextParts(a); ok && c == b.val {
			return Const(int(a.w), 0)
		}
	}
	return mkbv(OpSRem, a.w, a, b)
}

// Shl/LShr/AShr take shift amount of the same width, SMT semantics (>= w gives 0 / sign fill).
func Shl(a, s *Term) *Term {
	checkSame(a, s)
	if s.op == OpConst {
		if s.val == 0 {
			return a
		}
		if s.val >= uint64(a.w) {
			return Const(int(a.w), 0)
		}
		if a.op == OpConst {
			return Const(int(a.w), a.val<<s.val)
		}
		// concat(extract(a, w-1-s, 0), 0_s)
		n := int(s.val)
		return Concat(Extract(a, int(a.w)-1-n, 0), Const(n, 0))
	}
	return mkbv(OpShl, a.w, a, s)
}

func LShr(a, s *Term) *Term {
	checkSame(a, s)
	if s.op == OpConst {
		if s.val == 0 {
			return a
		}
		if s.val >= uint64(a.w) {
			return Const(int(a.w), 0)
		}
		if a.op == OpConst {
			return Const(int(a.w), a.val>>s.val)
		}
		n := int(s.val)
		return ZExt(Extract(a, int(a.w)-1, n), int(a.w))
	}
	return mkbv(OpLShr, a.w, a, s)
}

func AShr(a, s *Term) *Term {
	checkSame(a, s)
	if s.op == OpConst {
		if s.val == 0 {
			return a
		}
		if a.op == OpConst {
			sh := s.val
			if sh >= uint64(a.w) {
				sh = uint64(a.w) - 1
			}
			return Const(int(a.w), uint64(a.Int()>>sh))
		}
		if s.val >= uint64(a.w) {
			return SExt(Extract(a, int(a.w)-1, int(a.w)-1), int(a.w))
		}
		n := int(s.val)
		return SExt(Extract(a, int(a.w)-1, n), int(a.w))
	}
	return mkbv(OpAShr, a.w, a, s)
}

func Concat(hi, lo *Term) *Term {
	w := int(hi.w) + int(lo.w)
	if w > 64 {
		panic("concat too wide")
	}
	if hi.op == OpConst && lo.op == OpConst {
		return Const(w, hi.val<<lo.w|lo.val)
	}
	if hi.op == OpConst && hi.val == 0 {
		return ZExt(lo, w)
	}
	// concat(extract(x,h,m+1), extract(x,m,l)) = extract(x,h,l)
	if hi.op == OpExtract && lo.op == OpExtract && hi.args[0] == lo.args[0] {
		hh, hl := int(hi.val>>8), int(hi.val&0xff)
		lh, ll := int(lo.val>>8), int(lo.val&0xff)
		if hl == lh+1 {
			return Extract(hi.args[0], hh, ll)
		}
	}
	// concat(extract(x,h,l), low l bits of x in whatever form the simplifier
	// gives them) = extract(x,h,0)
	if hi.op == OpExtract {
		x := hi.args[0]
		hh, hl := int(hi.val>>8), int(hi.val&0xff)
		if hl > 0 && hl == int(lo.w) && Extract(x, hl-1, 0) == lo {
			return Extract(x, hh, 0)
		}
	}
	return mkbv(OpConcat, uint8(w), hi, lo)
}

func Extract(a *Term, hi, lo int) *Term {
	if hi < lo || lo < 0 || hi >= int(a.w) {
		panic(fmt.Sprintf("bad extract [%d:%d] of width %d", hi, lo, a.w))
	}
	w := hi - lo + 1
	if w == int(a.w) {
		return a
	}
	switch a.op {
	case OpConst:
		return Const(w, a.val>>uint(lo))
	case OpExtract:
		il := int(a.val & 0xff)
		return Extract(a.args[0], hi+il, lo+il)
	case OpConcat:
		l := a.args[1]
		if hi < int(l.w) {
			return Extract(l, hi, lo)
		}
		if lo >= int(l.w) {
			return Extract(a.args[0], hi-int(l.w), lo-int(l.w))
		}
		return Concat(Extract(a.args[0], hi-int(l.w), 0), Extract(l, int(l.w)-1, lo))
	case OpZExt:
		in := a.args[0]
		if hi < int(in.w) {
			return Extract(in, hi, lo)
		}
		if lo >= int(in.w) {
			return Const(w, 0)
		}
		return ZExt(Extract(in, int(in.w)-1, lo), w)
	case OpSExt:
		in := a.args[0]
		if hi < int(in.w) {
			return Extract(in, hi, lo)
		}
		if lo == 0 {
			return SExt(in, w)
		}
	case OpAnd, OpOr, OpXor:
		// push extraction through bitwise ops when it makes operands simpler
		x, y := Extract(a.args[0], hi, lo), Extract(a.args[1], hi, lo)
		if x.size+y.size < a.size {
			switch a.op {
			case OpAnd:
				return And(x, y)
			case OpOr:
				return Or(x, y)
			default:
				return Xor(x, y)
			}
		}
	case OpNot:
		return Not(Extract(a.args[0], hi, lo))
	case OpIte:
		if a.args[1].op == OpConst || a.args[2].op == OpConst {
			return Ite(a.args[0], Extract(a.args[1], hi, lo), Extract(a.args[2], hi, lo))
		}
	case OpAdd, OpSub, OpMul:
		if lo == 0 {
			x, y := Extract(a.args[0], hi, 0), Extract(a.args[1], hi, 0)
			switch a.op {
			case OpAdd:
				return Add(x, y)
			case OpSub:
				return Sub(x, y)
			default:
				return Mul(x, y)
			}
		}
	}
	return TT.mk(OpExtract, uint8(w), uint64(hi)<<8|uint64(lo), "", a)
}

func ZExt(a *Term, w int) *Term {
	if w == int(a.w) {
		return a
	}
	if w < int(a.w) {
		panic("zext narrower")
	}
	if a.op == OpConst {
		return Const(w, a.val)
	}
	if a.op == OpZExt {
		return ZExt(a.args[0], w)
	}
	return mkbv(OpZExt, uint8(w), a)
}

func SExt(a *Term, w int) *Term {
	if w == int(a.w) {
		return a
	}
	if w < int(a.w) {
		panic("sext narrower")
	}
	if a.op == OpConst {
		return Const(w, uint64(a.Int()))
	}
	if a.op == OpSExt {
		return SExt(a.args[0], w)
	}
	if a.op == OpZExt {
		return ZExt(a.args[0], w)
	}
	return mkbv(OpSExt, uint8(w), a)
}

// Trunc/extend to width w, signed or unsigned source.
func Resize(a *Term, w int, signed bool) *Term {
	if w == int(a.w) {
		return a
	}
	if w < int(a.w) {
		return Extract(a, w-1, 0)
	}
	if signed {
		return SExt(a, w)
	}
	return ZExt(a, w)
}

func Eq(a, b *Term) *Term {
	checkSame(a, b)
	if a == b {
		return TT.True
	}
	if a.IsConst() && b.IsConst() {
		return BoolT(a.val == b.val)
	}
	a, b = commut(a, b)
	if a.w == 0 {
		if b.op == OpBConst {
			if b.val != 0 {
				return a
			}
			return BNot(a)
		}
		if a.op == OpBConst {
			if a.val != 0 {
				return b
			}
			return BNot(b)
		}
		return TT.mk(OpEq, 0, 0, "", a, b)
	}
	if b.op == OpConst {
		// known-zero conflict
		if b.val&knownZero(a) != 0 {
			return TT.False
		}
		switch a.op {
		case OpZExt:
			in := a.args[0]
			if b.val > mask(in.w) {
				return TT.False
			}
			return Eq(in, Const(int(in.w), b.val))
		case OpSExt:
			in := a.args[0]
			if uint64(sext(b.val&mask(in.w), in.w))&mask(a.w) != b.val {
				return TT.False
			}
			return Eq(in, Const(int(in.w), b.val))
		case OpConcat:
			lo := a.args[1]
			return BAnd(Eq(a.args[0], Const(int(a.args[0].w), b.val>>lo.w)), Eq(lo, Const(int(lo.w), b.val)))
		case OpIte:
			t, e := a.args[1], a.args[2]
			if t.op == OpConst && e.op == OpConst {
				return Ite(a.args[0], BoolT(t.val == b.val), BoolT(e.val == b.val))
			}
		case OpAdd:
			if a.args[1].op == OpConst {
				return Eq(a.args[0], Const(int(a.w), b.val-a.args[1].val))
			}
		case OpXor:
			if a.args[1].op == OpConst {
				return Eq(a.args[0], Const(int(a.w), b.val^a.args[1].val))
			}
		case OpNot:
			return Eq(a.args[0], Const(int(a.w), ^b.val))
		case OpOr:
			x, y := a.args[0], a.args[1]
			px, py := mask(a.w)&^knownZero(x), mask(a.w)&^knownZero(y)
			if px&py == 0 {
				// disjoint bit ranges: (x|y)==c  <=>  x==c&px && y==c&py && c has no other bits
				if b.val&^(px|py) != 0 {
					return TT.False
				}
				return BAnd(Eq(x, Const(int(a.w), b.val&px)), Eq(y, Const(int(a.w), b.val&py)))
			}
		}
	}
	if a.op == OpZExt && b.op == OpZExt && a.args[0].w == b.args[0].w {
		return Eq(a.args[0], b.args[0])
	}
	return TT.mk(OpEq, 0, 0, "", a, b)
}

func Ult(a, b *Term) *Term {
	checkSame(a, b)
	if a.op == OpConst && b.op == OpConst {
		return BoolT(a.val < b.val)
	}
	if a == b {
		return TT.False
	}
	if b.op == OpConst && b.val == 0 {
		return TT.False
	}
	if b.op == OpConst && b.val == 1 {
		return Eq(a, Const(int(a.w), 0))
	}
	if a.op == OpConst && a.val == mask(a.w) {
		return TT.False
	}
	if b.op == OpConst {
		// a's maximum possible value
		if maxv := mask(a.w) &^ knownZero(a); maxv < b.val {
			return TT.True
		}
	}
	if a.op == OpZExt && b.op == OpConst {
		in := a.args[0]
		if b.val > mask(in.w) {
			return TT.True
		}
		return Ult(in, Const(int(in.w), b.val))
	}
	if a.op == OpConst && b.op == OpZExt {
		in := b.args[0]
		if a.val >= mask(in.w) {
			return TT.False
		}
		return Ult(Const(int(in.w), a.val), in)
	}
	if a.op == OpZExt && b.op == OpZExt && a.args[0].w == b.args[0].w {
		return Ult(a.args[0], b.args[0])
	}
	return TT.mk(OpUlt, 0, 0, "", a, b)
}

func Ule(a, b *Term) *Term { return BNot(Ult(b, a)) }

func Slt(a, b *Term) *Term {
	checkSame(a, b)
	if a.op == OpConst && b.op == OpConst {
		return BoolT(a.Int() < b.Int())
	}
	if a == b {
		return TT.False
	}
	if signBitZero(a) && signBitZero(b) {
		return Ult(a, b)
	}
	if signBitZero(a) && b.op == OpConst && b.Int() <= 0 {
		return TT.False
	}
	if signBitZero(b) && a.op == OpConst && a.Int() < 0 {
		return TT.True
	}
	return TT.mk(OpSlt, 0, 0, "", a, b)
}

func Sle(a, b *Term) *Term { return BNot(Slt(b, a)) }

func BNot(a *Term) *Term {
	if !a.IsBool() {
		panic("BNot of non-bool")
	}
	if a.op == OpBConst {
		return BoolT(a.val == 0)
	}
	if a.op == OpBNot {
		return a.args[0]
	}
	return TT.mk(OpBNot, 0, 0, "", a)
}

func BAnd(a, b *Term) *Term {
	if a.op == OpBConst {
		if a.val == 0 {
			return a
		}
		return b
	}
	if b.op == OpBConst {
		if b.val == 0 {
			return b
		}
		return a
	}
	if a == b {
		return a
	}
	if a == BNot(b) {
		return TT.False
	}
	if a.id > b.id {
		a, b = b, a
	}
	return TT.mk(OpBAnd, 0, 0, "", a, b)
}

func BOr(a, b *Term) *Term {
	if a.op == OpBConst {
		if a.val != 0 {
			return a
		}
		return b
	}
	if b.op == OpBConst {
		if b.val != 0 {
			return b
		}
		return a
	}
	if a == b {
		return a
	}
	if a == BNot(b) {
		return TT.True
	}
	if a.id > b.id {
		a, b = b, a
	}
	return TT.mk(OpBOr, 0, 0, "", a, b)
}

func Ite(c, a, b *Term) *Term {
	checkSame(a, b)
	if c.op == OpBConst {
		if c.val != 0 {
			return a
		}
		return b
	}
	if a == b {
		return a
	}
	if a.w == 0 {
		if a.op == OpBConst && b.op == OpBConst {
			if a.val != 0 {
				return c
			}
			return BNot(c)
		}
		if a.op == OpBConst {
			if a.val != 0 {
				return BOr(c, b)
			}
			return BAnd(BNot(c), b)
		}
		if b.op == OpBConst {
			if b.val != 0 {
				return BOr(BNot(c), a)
			}
			return BAnd(c, a)
		}
	}
	if c.op == OpBNot {
		return Ite(c.args[0], b, a)
	}
	return TT.mk(OpIte, a.w, 0, "", c, a, b)
}

func BoolToBV(c *Term, w int) *Term { return Ite(c, Const(w, 1), Const(w, 0)) }

// ---------------------------------------------------------------------------
// Evaluation under a model

type Model map[string]uint64

func (t *Term) Eval(m Model) uint64 {
	cache := map[int]uint64{}
	return evalTerm(t, m, cache)
}

func evalTerm(t *Term, m Model, cache map[int]uint64) uint64 {
	if t.op == OpConst || t.op == OpBConst {
		return t.val
	}
	if v, ok := cache[t.id]; ok {
		return v
	}
	var r uint64
	a := func(i int) uint64 { return evalTerm(t.args[i], m, cache) }
	w := t.w
	switch t.op {
	case OpVar:
		r = m[t.name] & mask(w)
	case OpBVar:
		r = m[t.name] & 1
	case OpNot:
		r = ^a(0)
	case OpNeg:
		r = -a(0)
	case OpAnd:
		r = a(0) & a(1)
	case OpOr:
		r = a(0) | a(1)
	case OpXor:
		r = a(0) ^ a(1)
	case OpAdd:
		r = a(0) + a(1)
	case OpSub:
		r = a(0) - a(1)
	case OpMul:
		r = a(0) * a(1)
	case OpUDiv:
		if y := a(1); y == 0 {
			r = mask(w)
		} else {
			r = a(0) / y
		}
	case OpURem:
		if y := a(1); y == 0 {
			r = a(0)
		} else {
			r = a(0) % y
		}
	case OpSDiv:
		x, y := sext(a(0), w), sext(a(1), w)
		if y == 0 {
			if x >= 0 {
				r = mask(w)
			} else {
				r = 1
			}
		} else if y == -1 {
			r = uint64(-x)
		} else {
			r = uint64(x / y)
		}
	case OpSRem:
		x, y := sext(a(0), w), sext(a(1), w)
		if y == 0 {
			r = uint64(x)
		} else if y == -1 {
			r = 0
		} else {
			r = uint64(x % y)
		}
	case OpShl:
		if s := a(1); s >= uint64(w) {
			r = 0
		} else {
			r = a(0) << s
		}
	case OpLShr:
		if s := a(1); s >= uint64(w) {
			r = 0
		} else {
			r = a(0) >> s
		}
	case OpAShr:
		s := a(1)
		if s >= uint64(w) {
			s = uint64(w) - 1
		}
		r = uint64(sext(a(0), w) >> s)
	case OpConcat:
		r = a(0)<<t.args[1].w | a(1)
	case OpExtract:
		lo := t.val & 0xff
		r = a(0) >> lo
	case OpZExt:
		r = a(0)
	case OpSExt:
		r = uint64(sext(a(0), t.args[0].w))
	case OpEq:
		r = b2u(a(0) == a(1))
	case OpUlt:
		r = b2u(a(0) < a(1))
	case OpUle:
		r = b2u(a(0) <= a(1))
	case OpSlt:
		r = b2u(sext(a(0), t.args[0].w) < sext(a(1), t.args[0].w))
	case OpSle:
		r = b2u(sext(a(0), t.args[0].w) <= sext(a(1), t.args[0].w))
	case OpBNot:
		r = 1 - a(0)
	case OpBAnd:
		r = a(0) & a(1)
	case OpBOr:
		r = a(0) | a(1)
	case OpIte:
		if a(0) != 0 {
			r = a(1)
		} else {
			r = a(2)
		}
	default:
		panic("eval: bad op")
	}
	if w > 0 {
		r &= mask(w)
	} else {
		r &= 1
	}
	cache[t.id] = r
	return r
}

func b2u(b bool) uint64 {
	if b {
		return 1
	}
	return 0
}

// ---------------------------------------------------------------------------
// Printing

func sortOf(t *Term) string {
	if t.w == 0 {
		return "Bool"
	}
	return fmt.Sprintf("(_ BitVec %d)", t.w)
}

func smtName(n string) string {
	return "|" + strings.NewReplacer("|", "_", "\\", "_").Replace(n) + "|"
}

// varName is the SMT symbol of a variable: name!width (the same harness name
// may be used at different widths by different harnesses).
func varName(t *Term) string {
	return "|" + strings.NewReplacer("|", "_", "\\", "_").Replace(t.name) + "!" + fmt.Sprint(t.w) + "|"
}

func constStr(t *Term) string {
	if t.op == OpBConst {
		if t.val != 0 {
			return "true"
		}
		return "false"
	}
	if t.w%4 == 0 {
		return fmt.Sprintf("#x%0*x", int(t.w)/4, t.val)
	}
	return fmt.Sprintf("#b%0*b", int(t.w), t.val)
}

// String prints a term as a tree (debugging only; may be large).
func (t *Term) String() string {
	var sb strings.Builder
	t.write(&sb, nil, 0)
	return sb.String()
}

func (t *Term) write(sb *strings.Builder, named map[int]bool, depth int) {
	switch t.op {
	case OpConst, OpBConst:
		sb.WriteString(constStr(t))
		return
	case OpVar, OpBVar:
		sb.WriteString(varName(t))
		return
	}
	if named != nil && depth > 0 && named[t.id] {
		fmt.Fprintf(sb, "t%d", t.id)
		return
	}
	if depth > 200 {
		sb.WriteString("...")
		return
	}
	switch t.op {
	case OpExtract:
		fmt.Fprintf(sb, "((_ extract %d %d) ", t.val>>8, t.val&0xff)
	case OpZExt:
		fmt.Fprintf(sb, "((_ zero_extend %d) ", int(t.w)-int(t.args[0].w))
	case OpSExt:
		fmt.Fprintf(sb, "((_ sign_extend %d) ", int(t.w)-int(t.args[0].w))
	default:
		sb.WriteString("(")
		sb.WriteString(opNames[t.op])
		sb.WriteString(" ")
	}
	for i, a := range t.args {
		if i > 0 {
			sb.WriteString(" ")
		}
		a.write(sb, named, depth+1)
	}
	sb.WriteString(")")
}

// Vars collects the variables occurring in the terms.
func VarsOf(ts ...*Term) []*Term {
	seen := map[int]bool{}
	var out []*Term
	var walk func(t *Term)
	walk = func(t *Term) {
		if !t.sym || seen[t.id] {
			return
		}
		seen[t.id] = true
		if t.op == OpVar || t.op == OpBVar {
			out = append(out, t)
			return
		}
		for _, a := range t.args {
			walk(a)
		}
	}
	for _, t := range ts {
		walk(t)
	}
	sort.Slice(out, func(i, j int) bool { return out[i].id < out[j].id })
	return out
}

// Subst rebuilds t with bound variables replaced by constants (memoised).
func Subst(t *Term, bind map[int]*Term, memo map[int]*Term) *Term {
	if !t.sym {
		return t
	}
	if r, ok := memo[t.id]; ok {
		return r
	}
	var r *Term
	switch t.op {
	case OpVar, OpBVar:
		if c, ok := bind[t.id]; ok {
			r = c
		} else {
			r = t
		}
	default:
		args := make([]*Term, len(t.args))
		changed := false
		for i, a := range t.args {
			args[i] = Subst(a, bind, memo)
			if args[i] != a {
				changed = true
			}
		}
		if !changed {
			r = t
		} else {
			r = rebuild(t, args)
		}
	}
	memo[t.id] = r
	return r
}

func rebuild(t *Term, a []*Term) *Term {
	switch t.op {
	case OpNot:
		return Not(a[0])
	case OpNeg:
		return Neg(a[0])
	case OpAnd:
		return And(a[0], a[1])
	case OpOr:
		return Or(a[0], a[1])
	case OpXor:
		return Xor(a[0], a[1])
	case OpAdd:
		return Add(a[0], a[1])
	case OpSub:
		return Sub(a[0], a[1])
	case OpMul:
		return Mul(a[0], a[1])
	case OpUDiv:
		return UDiv(a[0], a[1])
	case OpURem:
		return URem(a[0], a[1])
	case OpSDiv:
		return SDiv(a[0], a[1])
	case OpSRem:
		return SRem(a[0], a[1])
	case OpShl:
		return Shl(a[0], a[1])
	case OpLShr:
		return LShr(a[0], a[1])
	case OpAShr:
		return AShr(a[0], a[1])
	case OpConcat:
		return Concat(a[0], a[1])
	case OpExtract:
		return Extract(a[0], int(t.val>>8), int(t.val&0xff))
	case OpZExt:
		return ZExt(a[0], int(t.w))
	case OpSExt:
		return SExt(a[0], int(t.w))
	case OpEq:
		return Eq(a[0], a[1])
	case OpUlt:
		return Ult(a[0], a[1])
	case OpUle:
		return Ule(a[0], a[1])
	case OpSlt:
		return Slt(a[0], a[1])
	case OpSle:
		return Sle(a[0], a[1])
	case OpBNot:
		return BNot(a[0])
	case OpBAnd:
		return BAnd(a[0], a[1])
	case OpBOr:
		return BOr(a[0], a[1])
	case OpIte:
		return Ite(a[0], a[1], a[2])
	}
	panic("rebuild: bad op")
}
