package main

// Interval pre-decision of branch conditions. The path condition's conjuncts
// of the forms v < c, v <= c, v > c, v >= c, v != c (v a variable, c a
// constant, unsigned) give each variable an interval; a branch condition whose
// truth value follows from the intervals alone is decided without the solver
// (sound: the intervals are implied by the path condition, which is
// satisfiable by invariant). This removes most queries of byte-class tests on
// constrained symbolic text (digits, hex digits, ASCII).

type urange struct{ lo, hi uint64 }

func maskW(w uint8) uint64 {
	if w >= 64 {
		return ^uint64(0)
	}
	return uint64(1)<<w - 1
}

// noteBound records the bound a path-condition conjunct puts on a variable.
func (in *Interp) noteBound(c *Term) {
	neg := false
	if c.op == OpBNot {
		neg = true
		c = c.args[0]
	}
	set := func(v *Term, lo, hi uint64, ok bool) {
		if !ok || v.op == OpConst || v.w == 0 {
			return
		}
		if in.rng == nil {
			in.rng = map[int]urange{}
		}
		r, have := in.rng[v.id]
		if !have {
			r = urange{0, maskW(v.w)}
		}
		if lo > r.lo {
			r.lo = lo
		}
		if hi < r.hi {
			r.hi = hi
		}
		if r.lo <= r.hi {
			in.rng[v.id] = r
		}
	}
	switch c.op {
	case OpUlt:
		a, b := c.args[0], c.args[1]
		switch {
		case a.op != OpConst && b.op == OpConst:
			if !neg { // v < c
				set(a, 0, b.val-1, b.val > 0)
			} else { // v >= c
				set(a, b.val, maskW(a.w), true)
			}
		case a.op == OpConst && b.op != OpConst:
			if !neg { // c < v
				set(b, a.val+1, maskW(b.w), a.val < maskW(b.w))
			} else { // v <= c
				set(b, 0, a.val, true)
			}
		}
	case OpSlt:
		// signed comparisons with a non-negative constant
		a, b := c.args[0], c.args[1]
		w := a.w
		if w == 0 || w > 64 {
			return
		}
		half := uint64(1) << (w - 1)
		nonNeg := func(x *Term) bool { return in.rangeOf(x, 0).hi < half }
		switch {
		case a.op != OpConst && b.op == OpConst && b.val < half:
			if neg { // x >= c >= 0
				set(a, b.val, half-1, true)
			} else if nonNeg(a) { // 0 <= x < c
				set(a, 0, b.val-1, b.val > 0)
			}
		case a.op == OpConst && b.op != OpConst && a.val < half:
			if !neg { // x > c >= 0
				set(b, a.val+1, half-1, a.val+1 < half)
			} else if nonNeg(b) { // 0 <= x <= c
				set(b, 0, a.val, true)
			}
		}
	case OpEq:
		a, b := c.args[0], c.args[1]
		if a.op == OpConst {
			a, b = b, a
		}
		if neg && a.op != OpConst && a.w != 0 && b.op == OpConst && in.rng != nil {
			if r, ok := in.rng[a.id]; ok {
				if b.val == r.lo && r.lo < r.hi {
					r.lo++
					in.rng[a.id] = r
				} else if b.val == r.hi && r.lo < r.hi {
					r.hi--
					in.rng[a.id] = r
				}
			}
		}
	}
}

// rangeOf: an interval containing every value t can take under the recorded
// bounds (unsigned, in t's width).
func (in *Interp) rangeOf(t *Term, depth int) urange {
	full := urange{0, maskW(t.w)}
	if depth > 40 {
		return full
	}
	if t.op != OpConst {
		// a bound the path condition states for this very term
		if r, ok := in.rng[t.id]; ok {
			return r
		}
	}
	switch t.op {
	case OpConst:
		return urange{t.val, t.val}
	case OpVar:
		return full
	case OpIte:
		switch in.triState(t.args[0], depth+1) {
		case 1:
			return in.rangeOf(t.args[1], depth+1)
		case 0:
			return in.rangeOf(t.args[2], depth+1)
		}
		a, b := in.rangeOf(t.args[1], depth+1), in.rangeOf(t.args[2], depth+1)
		if b.lo < a.lo {
			a.lo = b.lo
		}
		if b.hi > a.hi {
			a.hi = b.hi
		}
		return a
	case OpZExt:
		return in.rangeOf(t.args[0], depth+1)
	case OpExtract:
		lo := int(t.val & 0xff)
		if lo == 0 {
			r := in.rangeOf(t.args[0], depth+1)
			if r.hi <= full.hi {
				return r
			}
		}
		return full
	case OpAdd:
		if t.args[1].op == OpConst {
			r := in.rangeOf(t.args[0], depth+1)
			c := t.args[1].val
			if r.hi <= full.hi-c && c <= full.hi { // no wrap
				return urange{r.lo + c, r.hi + c}
			}
			// adding a "negative" constant: x - k with x >= k throughout
			k := (full.hi - c + 1) & full.hi
			if k != 0 && r.lo >= k {
				return urange{r.lo - k, r.hi - k}
			}
		}
		return full
	case OpSub:
		if t.args[1].op == OpConst {
			r := in.rangeOf(t.args[0], depth+1)
			k := t.args[1].val
			if r.lo >= k {
				return urange{r.lo - k, r.hi - k}
			}
		}
		return full
	case OpOr:
		if t.args[1].op == OpConst {
			r := in.rangeOf(t.args[0], depth+1)
			c := t.args[1].val
			lo := r.lo
			if c > lo {
				lo = c
			}
			hi := full.hi
			if r.hi <= full.hi-c {
				hi = r.hi + c
			}
			return urange{lo, hi}
		}
		return full
	case OpAnd:
		if t.args[1].op == OpConst {
			return urange{0, t.args[1].val}
		}
		return full
	}
	return full
}

// triState: 1 = c holds, 0 = c does not hold, -1 = not decided by intervals.
func (in *Interp) triState(c *Term, depth int) int {
	if depth > 40 {
		return -1
	}
	switch c.op {
	case OpConst:
		if c.val != 0 {
			return 1
		}
		return 0
	case OpBNot:
		switch in.triState(c.args[0], depth+1) {
		case 1:
			return 0
		case 0:
			return 1
		}
		return -1
	case OpBAnd:
		a, b := in.triState(c.args[0], depth+1), in.triState(c.args[1], depth+1)
		if a == 0 || b == 0 {
			return 0
		}
		if a == 1 && b == 1 {
			return 1
		}
		return -1
	case OpBOr:
		a, b := in.triState(c.args[0], depth+1), in.triState(c.args[1], depth+1)
		if a == 1 || b == 1 {
			return 1
		}
		if a == 0 && b == 0 {
			return 0
		}
		return -1
	case OpEq:
		if c.args[0].w == 0 {
			return -1
		}
		a, b := in.rangeOf(c.args[0], depth+1), in.rangeOf(c.args[1], depth+1)
		if a.hi < b.lo || b.hi < a.lo {
			return 0
		}
		if a.lo == a.hi && b.lo == b.hi && a.lo == b.lo {
			return 1
		}
		return -1
	case OpUlt:
		a, b := in.rangeOf(c.args[0], depth+1), in.rangeOf(c.args[1], depth+1)
		if a.hi < b.lo {
			return 1
		}
		if a.lo >= b.hi {
			return 0
		}
		return -1
	case OpSlt:
		w := c.args[0].w
		if w == 0 || w > 64 {
			return -1
		}
		half := uint64(1) << (w - 1)
		a, b := in.rangeOf(c.args[0], depth+1), in.rangeOf(c.args[1], depth+1)
		if a.hi < half && b.hi < half { // both non-negative: as unsigned
			if a.hi < b.lo {
				return 1
			}
			if a.lo >= b.hi {
				return 0
			}
		}
		return -1
	}
	return -1
}

// narrow removes truncate-then-extend pairs whose operand is known (from the
// intervals) to fit the narrower width: zext(extract[k-1:0](x)) = x when
// x < 2^k. It only ever replaces a term by an equal one under the path
// condition.
func (in *Interp) narrow(t *Term, memo map[int]*Term) *Term {
	if !t.sym || len(in.rng) == 0 || t.size > 20000 {
		return t
	}
	if len(memo) == 0 {
		// the simplifier pushes low-order extracts into arithmetic, so that
		// zext(extract[k-1:0](x)) may no longer show x: map the pushed forms of the
		// bounded 64-bit sub-terms back to them
		in.narrowBack = map[int]*Term{}
		seen := map[int]bool{}
		var walk func(u *Term)
		walk = func(u *Term) {
			if seen[u.id] || !u.sym || len(seen) > 4000 {
				return
			}
			seen[u.id] = true
			if u.w == 64 && u.op != OpVar && u.op != OpZExt {
				hi := in.rangeOf(u, 0).hi
				for _, k := range []int{8, 16, 32} {
					if hi < uint64(1)<<uint(k) {
						in.narrowBack[ZExt(Extract(u, k-1, 0), 64).id] = u
						break
					}
				}
			}
			for _, a := range u.args {
				walk(a)
			}
		}
		walk(t)
		memo[-1] = t // marks the pre-pass as done
	}
	if r, ok := in.narrowBack[t.id]; ok && r != t {
		return r
	}
	if r, ok := memo[t.id]; ok {
		return r
	}
	var r *Term
	if t.op == OpZExt && t.args[0].op == OpExtract && t.args[0].val&0xff == 0 {
		x := t.args[0].args[0]
		k := t.args[0].w
		if x.w == t.w && k < 64 && in.rangeOf(x, 0).hi < uint64(1)<<k {
			r = in.narrow(x, memo)
			memo[t.id] = r
			return r
		}
	}
	if len(t.args) == 0 {
		r = t
	} else {
		args := make([]*Term, len(t.args))
		changed := false
		for i, a := range t.args {
			args[i] = in.narrow(a, memo)
			if args[i] != a {
				changed = true
			}
		}
		if changed {
			r = rebuild(t, args)
		} else {
			r = t
		}
	}
	memo[t.id] = r
	return r
}
