package main

// One long-lived solver process per executor (z3 -in by default), driven with
// push/pop mirroring the current path condition. Any "(error" line or
// "unknown"/timeout is reported as Unknown and never counted as discharged.

import (
	"bufio"
	"fmt"
	"io"
	"os"
	"os/exec"
	"strconv"
	"strings"
	"time"
)

type SatResult int

const (
	Unsat SatResult = iota
	Sat
	Unknown
)

func (r SatResult) String() string { return [...]string{"unsat", "sat", "unknown"}[r] }

type Solver struct {
	kind     string // z3, z3-new, cvc5, cvc5-int
	cmd      *exec.Cmd
	in       io.WriteCloser
	out      *bufio.Reader
	declared map[int]bool // vars declared
	defined  map[int]bool // named sub-terms defined
	stack    []*Term      // asserted conjuncts, one per push level
	timeout  int          // ms per query
	Queries  int
	NSat     int
	NUnsat   int
	NUnknown int
	Time     time.Duration
	log      io.Writer
	errors   []string
}

func solverArgv(kind string, timeoutMs int) []string {
	switch kind {
	case "z3":
		return []string{"z3", "-in", "-t:" + strconv.Itoa(timeoutMs)}
	case "z3-new":
		return []string{"z3-new", "-in", "-t:" + strconv.Itoa(timeoutMs)}
	case "cvc5":
		return []string{"cvc5", "--incremental", "--lang=smt2", "--produce-models", "--global-declarations", "--tlimit-per=" + strconv.Itoa(timeoutMs)}
	case "cvc5-int":
		return []string{"cvc5", "--incremental", "--lang=smt2", "--produce-models", "--global-declarations", "--solve-bv-as-int=sum", "--tlimit-per=" + strconv.Itoa(timeoutMs)}
	}
	panic("unknown solver " + kind)
}

func NewSolver(kind string, timeoutMs int) (*Solver, error) {
	s := &Solver{kind: kind, timeout: timeoutMs}
	if f := os.Getenv("GOSYM_SMTLOG"); f != "" {
		w, err := os.OpenFile(f+"."+kind+"."+strconv.Itoa(os.Getpid()), os.O_CREATE|os.O_WRONLY|os.O_TRUNC, 0644)
		if err == nil {
			s.log = w
		}
	}
	if err := s.start(); err != nil {
		return nil, err
	}
	return s, nil
}

func (s *Solver) start() error {
	argv := solverArgv(s.kind, s.timeout)
	s.cmd = exec.Command(argv[0], argv[1:]...)
	in, err := s.cmd.StdinPipe()
	if err != nil {
		return err
	}
	out, err := s.cmd.StdoutPipe()
	if err != nil {
		return err
	}
	s.cmd.Stderr = s.cmd.Stdout
	if err := s.cmd.Start(); err != nil {
		return err
	}
	s.in = in
	s.out = bufio.NewReaderSize(out, 1<<20)
	s.declared = map[int]bool{}
	s.defined = map[int]bool{}
	s.stack = nil
	if strings.HasPrefix(s.kind, "z3") {
		s.send("(set-option :global-declarations true)\n(set-option :produce-models true)\n")
	} else {
		s.send("(set-logic QF_BV)\n")
	}
	return nil
}

// Reset forgets all declarations and assertions (called between jobs).
func (s *Solver) Reset() {
	s.declared = map[int]bool{}
	s.defined = map[int]bool{}
	s.stack = nil
	if strings.HasPrefix(s.kind, "z3") {
		s.send("(reset)\n(set-option :global-declarations true)\n(set-option :produce-models true)\n")
	} else {
		s.restart()
	}
}

func (s *Solver) Close() {
	if s.cmd != nil {
		s.in.Close()
		s.cmd.Process.Kill()
		s.cmd.Wait()
		s.cmd = nil
	}
}

func (s *Solver) restart() {
	s.Close()
	if err := s.start(); err != nil {
		panic(err)
	}
}

func (s *Solver) send(txt string) {
	if s.log != nil {
		io.WriteString(s.log, txt)
	}
	if _, err := io.WriteString(s.in, txt); err != nil {
		s.errors = append(s.errors, "write: "+err.Error())
	}
}

// prepare emits declarations and definitions needed by t.
func (s *Solver) prepare(t *Term, sb *strings.Builder) {
	if !t.sym {
		return
	}
	switch t.op {
	case OpVar, OpBVar:
		if !s.declared[t.id] {
			s.declared[t.id] = true
			fmt.Fprintf(sb, "(declare-const %s %s)\n", varName(t), sortOf(t))
		}
		return
	}
	if s.defined[t.id] {
		return
	}
	for _, a := range t.args {
		s.prepare(a, sb)
	}
	s.defined[t.id] = true
	fmt.Fprintf(sb, "(define-fun t%d () %s ", t.id, sortOf(t))
	t.write(sb, s.defined, 0)
	sb.WriteString(")\n")
}

func (s *Solver) ref(t *Term, sb *strings.Builder) string {
	s.prepare(t, sb)
	switch t.op {
	case OpConst, OpBConst:
		return constStr(t)
	case OpVar, OpBVar:
		return varName(t)
	}
	return fmt.Sprintf("t%d", t.id)
}

// sync makes the solver's assertion stack equal to pc.
func (s *Solver) sync(pc []*Term) {
	n := 0
	for n < len(pc) && n < len(s.stack) && pc[n] == s.stack[n] {
		n++
	}
	var sb strings.Builder
	if k := len(s.stack) - n; k > 0 {
		fmt.Fprintf(&sb, "(pop %d)\n", k)
		s.stack = s.stack[:n]
	}
	for _, c := range pc[n:] {
		r := s.ref(c, &sb)
		fmt.Fprintf(&sb, "(push 1)\n(assert %s)\n", r)
		s.stack = append(s.stack, c)
	}
	if sb.Len() > 0 {
		s.send(sb.String())
	}
}

func (s *Solver) readLine() (string, error) {
	line, err := s.out.ReadString('\n')
	return strings.TrimSpace(line), err
}

// Check decides satisfiability of pc ∧ extra. With wantModel, a model over
// the variables of pc and extra is returned on Sat.
func (s *Solver) Check(pc []*Term, extra *Term, wantModel bool) (SatResult, Model) {
	start := time.Now()
	defer func() { s.Time += time.Since(start) }()
	s.Queries++
	s.sync(pc)
	var sb strings.Builder
	pushed := false
	if extra != nil && !extra.IsTrue() {
		r := s.ref(extra, &sb)
		fmt.Fprintf(&sb, "(push 1)\n(assert %s)\n", r)
		pushed = true
	}
	sb.WriteString("(check-sat)\n")
	s.send(sb.String())
	res := Unknown
	for {
		line, err := s.readLine()
		if err != nil {
			s.errors = append(s.errors, "solver died: "+err.Error())
			s.restart()
			s.NUnknown++
			return Unknown, nil
		}
		if line == "" {
			continue
		}
		if line == "sat" {
			res = Sat
			break
		}
		if line == "unsat" {
			res = Unsat
			break
		}
		if line == "unknown" || line == "timeout" {
			res = Unknown
			break
		}
		if strings.Contains(line, "error") {
			s.errors = append(s.errors, line)
			// keep reading: the answer line still follows, but result is inconclusive
			s.drainAnswer()
			res = Unknown
			break
		}
		// other noise (warnings)
		s.errors = append(s.errors, "unexpected: "+line)
	}
	var model Model
	if res == Sat && wantModel {
		model = s.getModel(append(append([]*Term{}, pc...), extraOrTrue(extra)))
		if model == nil {
			res = Unknown
		}
	}
	if pushed {
		s.send("(pop 1)\n")
	}
	switch res {
	case Sat:
		s.NSat++
	case Unsat:
		s.NUnsat++
	default:
		s.NUnknown++
	}
	return res, model
}

func extraOrTrue(t *Term) *Term {
	if t == nil {
		return TT.True
	}
	return t
}

func (s *Solver) drainAnswer() {
	for {
		line, err := s.readLine()
		if err != nil {
			s.restart()
			return
		}
		if line == "sat" || line == "unsat" || line == "unknown" || line == "timeout" {
			return
		}
	}
}

func (s *Solver) getModel(ts []*Term) Model {
	vars := VarsOf(ts...)
	m := Model{}
	if len(vars) == 0 {
		return m
	}
	var sb strings.Builder
	sb.WriteString("(get-value (")
	for _, v := range vars {
		sb.WriteString(varName(v))
		sb.WriteString(" ")
	}
	sb.WriteString("))\n")
	s.send(sb.String())
	// read balanced s-expression
	depth := 0
	var txt strings.Builder
	for {
		line, err := s.readLine()
		if err != nil {
			s.errors = append(s.errors, "solver died in get-value")
			s.restart()
			return nil
		}
		if strings.HasPrefix(line, "(error") {
			s.errors = append(s.errors, line)
			return nil
		}
		txt.WriteString(line)
		txt.WriteString(" ")
		inBar := false
		for _, c := range line {
			switch {
			case c == '|':
				inBar = !inBar
			case inBar:
			case c == '(':
				depth++
			case c == ')':
				depth--
			}
		}
		if depth <= 0 {
			break
		}
	}
	// parse pairs: (|name| value)
	str := txt.String()
	i := 0
	for i < len(str) {
		j := strings.IndexByte(str[i:], '|')
		if j < 0 {
			break
		}
		i += j + 1
		k := strings.IndexByte(str[i:], '|')
		if k < 0 {
			break
		}
		name := str[i : i+k]
		if j := strings.LastIndexByte(name, '!'); j >= 0 {
			name = name[:j]
		}
		i += k + 1
		// skip spaces
		for i < len(str) && str[i] == ' ' {
			i++
		}
		e := i
		for e < len(str) && str[e] != ')' && str[e] != ' ' {
			e++
		}
		tok := str[i:e]
		var v uint64
		switch {
		case strings.HasPrefix(tok, "#x"):
			v, _ = strconv.ParseUint(tok[2:], 16, 64)
		case strings.HasPrefix(tok, "#b"):
			v, _ = strconv.ParseUint(tok[2:], 2, 64)
		case tok == "true":
			v = 1
		case tok == "false":
			v = 0
		case strings.HasPrefix(tok, "(_"):
			// (_ bvN w)
			rest := str[i:]
			fmt.Sscanf(rest, "(_ bv%d", &v)
		default:
			s.errors = append(s.errors, "cannot parse model value "+tok)
		}
		m[name] = v
		i = e
	}
	return m
}

// One-shot query on a fresh secondary solver (cross-check). The text is
// self-contained.
func CrossCheck(kind string, pc []*Term, extra *Term, timeoutMs int) SatResult {
	s, err := NewSolver(kind, timeoutMs)
	if err != nil {
		return Unknown
	}
	defer s.Close()
	r, _ := s.Check(pc, extra, false)
	if len(s.errors) > 0 {
		return Unknown
	}
	return r
}
