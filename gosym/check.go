package main

// gosym check: runs the harness jobs of one property on a pool of worker
// processes, replays counterexamples and witnesses natively, writes the
// evidence file and prints VIOLATION / KNOWN-FINDING lines.

import (
	"bufio"
	"crypto/sha1"
	"encoding/json"
	"flag"
	"fmt"
	"go/ast"
	"go/parser"
	"go/token"
	"io"
	"math/rand"
	"os"
	"os/exec"
	"path/filepath"
	"sort"
	"strconv"
	"strings"
	"sync"
	"time"
)

type JobSpec struct {
	Harness    string            `json:"harness"`
	Args       []json.RawMessage `json:"args"`
	MaxPaths   int               `json:"max_paths"`
	Unwind     int               `json:"unwind"`
	MaxPreempt int               `json:"max_preempt"`
	MaxDeviate int               `json:"max_deviate"`
	MaxValues  int               `json:"max_values"`
	HangBound  int               `json:"hang_bound"`
	TimeoutMs  int               `json:"timeout_ms"`
	Solver     string            `json:"solver"`
	NoReplay   bool              `json:"no_replay"` // schedule counterexamples: confirmed by deterministic re-execution
}

type CheckSpec struct {
	Property    string    `json:"property"`
	Level       string    `json:"level"`
	Rule        string    `json:"rule"`
	Assumptions []string  `json:"assumptions"`
	Outside     []string  `json:"outside"`
	Trusted     []string  `json:"trusted_base"`
	Bounds      string    `json:"bounds"`
	Quick       []JobSpec `json:"quick"`
	Thorough    []JobSpec `json:"thorough"`
	CrossCheck  string    `json:"cross_check"`
}

type KnownFinding struct {
	ID       string `json:"id"`
	Property string `json:"property"`
	Status   string `json:"status"` // open | fixed
	What     string `json:"what"`
	Commit   string `json:"commit,omitempty"`
}

var knownFindings map[string]*KnownFinding

func loadKnown() {
	if knownFindings != nil {
		return
	}
	knownFindings = map[string]*KnownFinding{}
	data, err := os.ReadFile(filepath.Join(verifDir, "known_findings.json"))
	if err != nil {
		return
	}
	var list []*KnownFinding
	if err := json.Unmarshal(data, &list); err != nil {
		fmt.Fprintln(os.Stderr, "known_findings.json:", err)
		return
	}
	for _, k := range list {
		knownFindings[k.ID] = k
	}
}

func (in *Interp) knownOpen(id string) bool {
	loadKnown()
	k := knownFindings[id]
	return k != nil && k.Status == "open"
}

func expandJobs(specs []JobSpec) ([]Job, error) {
	var out []Job
	for _, s := range specs {
		lists := make([][]int64, len(s.Args))
		for i, raw := range s.Args {
			var n int64
			if err := json.Unmarshal(raw, &n); err == nil {
				lists[i] = []int64{n}
				continue
			}
			var obj struct {
				V []int64 `json:"v"`
			}
			if err := json.Unmarshal(raw, &obj); err == nil && obj.V != nil {
				lists[i] = obj.V
				continue
			}
			var rng []int64
			if err := json.Unmarshal(raw, &rng); err != nil {
				return nil, fmt.Errorf("bad arg in %s: %s", s.Harness, raw)
			}
			if len(rng) == 2 && rng[0] <= rng[1] {
				for v := rng[0]; v <= rng[1]; v++ {
					lists[i] = append(lists[i], v)
				}
			} else {
				lists[i] = rng
			}
		}
		var rec func(i int, cur []int64)
		rec = func(i int, cur []int64) {
			if i == len(lists) {
				out = append(out, Job{Harness: s.Harness, Args: append([]int64(nil), cur...), MaxPaths: s.MaxPaths, Unwind: s.Unwind, MaxPreempt: s.MaxPreempt, MaxDeviate: s.MaxDeviate, MaxValues: s.MaxValues, HangBound: s.HangBound, TimeoutMs: s.TimeoutMs, Solver: s.Solver})
				return
			}
			for _, v := range lists[i] {
				rec(i+1, append(cur, v))
			}
		}
		rec(0, nil)
	}
	return out, nil
}

type worker struct {
	cmd *exec.Cmd
	in  io.WriteCloser
	out *bufio.Reader
}

type witnessItem struct {
	job   Job
	w     *Violation
	obs   map[string]string
	first bool
}

// inconclusiveWhere: the first few jobs in which each inconclusive reason arose
var inconclusiveWhere = map[string][]string{}

func noteWhere(k string, j Job) {
	if len(inconclusiveWhere[k]) < 4 {
		inconclusiveWhere[k] = append(inconclusiveWhere[k], fmt.Sprintf("%s%v", j.Harness, j.Args))
	}
}

func startWorker(repo string) (*worker, error) {
	self, err := os.Executable()
	if err != nil {
		return nil, err
	}
	cmd := exec.Command(self, "worker", "-repo", repo)
	// soft memory limit per worker: 16 workers must fit the machine (62 GB) together
	cmd.Env = append(os.Environ(), "VERIF_DIR="+verifDir, "GOMEMLIMIT=2500MiB")
	cmd.Stderr = os.Stderr
	in, _ := cmd.StdinPipe()
	out, _ := cmd.StdoutPipe()
	if err := cmd.Start(); err != nil {
		return nil, err
	}
	w := &worker{cmd: cmd, in: in, out: bufio.NewReaderSize(out, 1<<20)}
	line, err := w.out.ReadString('\n')
	if err != nil || strings.TrimSpace(line) != "READY" {
		cmd.Process.Kill()
		cmd.Wait()
		return nil, fmt.Errorf("worker failed to start: %q %v", line, err)
	}
	return w, nil
}

func (w *worker) run(job Job) (*JobResult, error) {
	b, _ := json.Marshal(job)
	if _, err := w.in.Write(append(b, '\n')); err != nil {
		return nil, err
	}
	line, err := w.out.ReadBytes('\n')
	if err != nil {
		return nil, err
	}
	var res JobResult
	if err := json.Unmarshal(line, &res); err != nil {
		return nil, err
	}
	return &res, nil
}

func (w *worker) stop() {
	w.in.Close()
	done := make(chan struct{})
	go func() { w.cmd.Wait(); close(done) }()
	select {
	case <-done:
	case <-time.After(2 * time.Second):
		w.cmd.Process.Kill()
		<-done
	}
}

func runJobs(repo string, jobs []Job, nworkers int, jobTimeout time.Duration) []*JobResult {
	results := make([]*JobResult, len(jobs))
	if nworkers > len(jobs) {
		nworkers = len(jobs)
	}
	if nworkers < 1 {
		nworkers = 1
	}
	idx := make(chan int, len(jobs))
	for i := range jobs {
		idx <- i
	}
	close(idx)
	var wg sync.WaitGroup
	for k := 0; k < nworkers; k++ {
		wg.Add(1)
		go func() {
			defer wg.Done()
			var w *worker
			defer func() {
				if w != nil {
					w.stop()
				}
			}()
			for i := range idx {
				if w == nil {
					var err error
					w, err = startWorker(repo)
					if err != nil {
						results[i] = &JobResult{Job: jobs[i], Crash: "worker start: " + err.Error()}
						continue
					}
				}
				type rr struct {
					r   *JobResult
					err error
				}
				ch := make(chan rr, 1)
				go func(w *worker, j Job) { r, err := w.run(j); ch <- rr{r, err} }(w, jobs[i])
				select {
				case x := <-ch:
					if x.err != nil {
						results[i] = &JobResult{Job: jobs[i], Crash: "worker died: " + x.err.Error()}
						w.cmd.Process.Kill()
						w.cmd.Wait()
						w = nil
					} else {
						results[i] = x.r
						// recycle a worker whose heap has grown large (concurrent-mode jobs
						// with millions of schedules): 16 workers must fit the machine
						if x.r.HeapMB > 1800 {
							w.stop()
							w = nil
						}
					}
				case <-time.After(jobTimeout):
					results[i] = &JobResult{Job: jobs[i], Crash: "job timeout after " + jobTimeout.String()}
					w.cmd.Process.Kill()
					w.cmd.Wait()
					w = nil
				}
			}
		}()
	}
	wg.Wait()
	return results
}

// ---------------------------------------------------------------------------
// native replay

type replayOutcome struct {
	Panicked     bool              `json:"panicked"`
	PanicMsg     string            `json:"panic_msg"`
	FailedAssert []string          `json:"failed_asserts"`
	PassedAssert int               `json:"passed_asserts"`
	AssumeFailed bool              `json:"assume_failed"`
	Mutated      bool              `json:"mutated"`
	Obs          map[string]string `json:"obs"`
	Stack        string            `json:"stack,omitempty"`
	Error        string            `json:"error,omitempty"`
}

type replayer struct {
	repo  string
	tmp   string
	bins  map[string]string // harness package -> test binary
	errs  map[string]string
	mu    sync.Mutex
}

func newReplayer(repo string) (*replayer, error) {
	tmp, err := os.MkdirTemp("", "gosym-replay-")
	if err != nil {
		return nil, err
	}
	return &replayer{repo: repo, tmp: tmp, bins: map[string]string{}, errs: map[string]string{}}, nil
}

func (r *replayer) close() { os.RemoveAll(r.tmp) }

// harnessFuncs lists Verif* functions (name -> arity) of a harness package dir.
func harnessFuncs(dir string) (map[string]int, error) {
	fset := token.NewFileSet()
	out := map[string]int{}
	ents, err := os.ReadDir(dir)
	if err != nil {
		return nil, err
	}
	for _, e := range ents {
		if !strings.HasSuffix(e.Name(), ".go") {
			continue
		}
		f, err := parser.ParseFile(fset, filepath.Join(dir, e.Name()), nil, 0)
		if err != nil {
			return nil, err
		}
		for _, d := range f.Decls {
			fd, ok := d.(*ast.FuncDecl)
			if !ok || fd.Recv != nil || !strings.HasPrefix(fd.Name.Name, "Verif") {
				continue
			}
			n := 0
			for _, p := range fd.Type.Params.List {
				if len(p.Names) == 0 {
					n++
				} else {
					n += len(p.Names)
				}
			}
			out[fd.Name.Name] = n
		}
	}
	return out, nil
}

func (r *replayer) binary(pkg string) (string, error) {
	r.mu.Lock()
	defer r.mu.Unlock()
	if b, ok := r.bins[pkg]; ok {
		if b == "" {
			return "", fmt.Errorf("%s", r.errs[pkg])
		}
		return b, nil
	}
	sub := pkgDirs[pkg]
	_, files, err := buildOverlay(r.repo, true, r.tmp)
	if err != nil {
		return "", err
	}
	funcs, err := harnessFuncs(filepath.Join(verifDir, "harness", pkg))
	if err != nil {
		return "", err
	}
	var sb strings.Builder
	fmt.Fprintf(&sb, "package %s\n\nimport \"testing\"\n\nfunc TestVerifReplay(t *testing.T) {\n\tverifRunReplay(map[string]func([]int64){\n", pkg)
	names := make([]string, 0, len(funcs))
	for n := range funcs {
		names = append(names, n)
	}
	sort.Strings(names)
	for _, n := range names {
		fmt.Fprintf(&sb, "\t\t%q: func(a []int64) { %s(", n, n)
		for i := 0; i < funcs[n]; i++ {
			if i > 0 {
				sb.WriteString(", ")
			}
			fmt.Fprintf(&sb, "int(a[%d])", i)
		}
		sb.WriteString(") },\n")
	}
	sb.WriteString("\t})\n}\n")
	testFile := filepath.Join(r.tmp, pkg+"_replay_test.go")
	if err := os.WriteFile(testFile, []byte(sb.String()), 0644); err != nil {
		return "", err
	}
	files[filepath.Join(r.repo, sub, "zz_verif_replay_test.go")] = testFile
	// external test package linking every kmip-go package, so that the registries
	// filled by their init functions are populated as they are in the executor
	linkFile := filepath.Join(r.tmp, pkg+"_link_test.go")
	var lb strings.Builder
	fmt.Fprintf(&lb, "package %s_test\n\nimport (\n", pkg)
	for _, p := range []string{"", "/ttlv", "/payloads", "/kmipclient", "/kmipserver"} {
		fmt.Fprintf(&lb, "\t_ %q\n", modPath+p)
	}
	lb.WriteString(")\n")
	if err := os.WriteFile(linkFile, []byte(lb.String()), 0644); err != nil {
		return "", err
	}
	files[filepath.Join(r.repo, sub, "zz_verif_link_test.go")] = linkFile
	ov, _ := json.Marshal(map[string]any{"Replace": files})
	ovFile := filepath.Join(r.tmp, pkg+"_overlay.json")
	os.WriteFile(ovFile, ov, 0644)
	bin := filepath.Join(r.tmp, pkg+".test")
	cmd := exec.Command(goRoot+"/bin/go", "test", "-c", "-vet=off", "-tags=verif", "-overlay", ovFile, "-o", bin, "./"+sub)
	cmd.Dir = r.repo
	cmd.Env = goEnv()
	out, err := cmd.CombinedOutput()
	if err != nil {
		r.bins[pkg] = ""
		r.errs[pkg] = "native build failed: " + err.Error() + "\n" + string(out)
		return "", fmt.Errorf("%s", r.errs[pkg])
	}
	r.bins[pkg] = bin
	return bin, nil
}

func (r *replayer) replay(v *Violation) *replayOutcome {
	pkg, _, _ := strings.Cut(v.Harness, ".")
	bin, err := r.binary(pkg)
	if err != nil {
		return &replayOutcome{Error: err.Error()}
	}
	f, err := os.CreateTemp(r.tmp, "case-*.json")
	if err != nil {
		return &replayOutcome{Error: err.Error()}
	}
	b, _ := json.Marshal(v)
	f.Write(b)
	f.Close()
	defer os.Remove(f.Name())
	// address-space limit: a counterexample of a termination claim may allocate for ever
	cmd := exec.Command("bash", "-c", "ulimit -v 8000000; exec \"$0\" -test.run '^TestVerifReplay$' -test.timeout 30s", bin)
	cmd.Dir = filepath.Join(r.repo, pkgDirs[pkg])
	cmd.Env = append(os.Environ(), "VERIF_REPLAY_FILE="+f.Name(), "VERIF_REPO_ROOT="+r.repo)
	out, _ := cmd.CombinedOutput()
	for _, line := range strings.Split(string(out), "\n") {
		if rest, ok := strings.CutPrefix(line, "REPLAY-RESULT "); ok {
			var o replayOutcome
			if err := json.Unmarshal([]byte(rest), &o); err != nil {
				return &replayOutcome{Error: "bad REPLAY-RESULT: " + err.Error()}
			}
			return &o
		}
	}
	txt := string(out)
	if len(txt) > 1500 {
		txt = txt[:1500]
	}
	// no result line: the test binary died (fatal error, timeout = hang)
	return &replayOutcome{Error: "no REPLAY-RESULT (native run crashed or timed out): " + txt, Panicked: strings.Contains(txt, "panic:") || strings.Contains(txt, "fatal error"), PanicMsg: txt}
}

func reproduced(v *Violation, o *replayOutcome) bool {
	if o.AssumeFailed {
		return false
	}
	switch v.Kind {
	case "assert":
		for _, n := range o.FailedAssert {
			if n == v.Name {
				return true
			}
		}
		return false
	case "panic":
		return o.Panicked
	case "mutation":
		return o.Mutated
	case "hang":
		// the native run must not come back: killed by the test deadline or by
		// the address-space limit of the replay process
		txt := o.Error + o.PanicMsg
		return strings.Contains(txt, "test timed out") || strings.Contains(txt, "out of memory") || strings.Contains(txt, "cannot allocate memory")
	case "deadlock":
		return strings.Contains(o.Error, "timed out") || strings.Contains(o.PanicMsg, "deadlock") || strings.Contains(o.PanicMsg, "test timed out")
	}
	return false
}

// ---------------------------------------------------------------------------

func checkMain(args []string) int {
	fs := flag.NewFlagSet("check", flag.ExitOnError)
	prop := fs.String("prop", "", "property id")
	tier := fs.String("tier", "quick", "quick|thorough")
	repo := fs.String("repo", "/repo", "repository")
	nw := fs.Int("j", 16, "workers")
	fs.Parse(args)
	if t := os.Getenv("VERIF_TIER"); t != "" && *tier == "" {
		*tier = t
	}
	seed := int64(1)
	if s := os.Getenv("VERIF_SEED"); s != "" {
		if v, err := strconv.ParseInt(s, 10, 64); err == nil {
			seed = v
		}
	}
	start := time.Now()
	data, err := os.ReadFile(filepath.Join(verifDir, "checks", *prop+".json"))
	if err != nil {
		fmt.Println("BROKEN-CHECK", err)
		return 2
	}
	var spec CheckSpec
	if err := json.Unmarshal(data, &spec); err != nil {
		fmt.Println("BROKEN-CHECK bad spec:", err)
		return 2
	}
	specs := spec.Quick
	if *tier == "thorough" {
		specs = append(append([]JobSpec{}, spec.Quick...), spec.Thorough...)
	}
	jobs, err := expandJobs(specs)
	if err != nil {
		fmt.Println("BROKEN-CHECK", err)
		return 2
	}
	noReplay := map[string]bool{}
	for _, s := range specs {
		if s.NoReplay {
			noReplay[s.Harness] = true
		}
	}
	rng := rand.New(rand.NewSource(seed))
	rng.Shuffle(len(jobs), func(i, j int) { jobs[i], jobs[j] = jobs[j], jobs[i] })
	jobTimeout := 10 * time.Minute
	if *tier == "thorough" {
		jobTimeout = 40 * time.Minute
	}
	results := runJobs(*repo, jobs, *nw, jobTimeout)

	loadKnown()
	rep, err := newReplayer(*repo)
	if err != nil {
		fmt.Println("BROKEN-CHECK", err)
		return 2
	}
	defer rep.close()

	var (
		paths, decisions, obligations, discharged, trivial, unknown, infeasible int
		queries                                                              int
		solverMs                                                             int64
		funcs                                                                = map[string]bool{}
		unsupported                                                          = map[string]int{}
		unwind                                                               = map[string]int{}
		crashes                                                              []string
		samples                                                              []any
		vacuous                                                              []string
		pathCaps                                                             int
		reach                                                                = map[string]int{}
		asserts                                                              = map[string]int{}
		harnessNames                                                         = map[string]int{}
	)
	type cand struct {
		v   *Violation
		key string
	}
	var cands []cand
	seenKey := map[string]bool{}
	var witnesses []witnessItem
	knownInstances := map[string][]string{}
	crossChecked, crossUnknown := 0, 0
	var crossDisagree []string
	if os.Getenv("GOSYM_VERBOSE") != "" {
		for _, r := range results {
			if r != nil {
				fmt.Fprintf(os.Stderr, "job %s%v paths=%d obl=%d/%d unknown=%d q=%d solver=%dms wall=%dms viol=%d unsup=%d\n", r.Job.Harness, r.Job.Args, r.Paths, r.Discharged, r.Obligations, r.Unknown, r.Queries, r.SolverMs, r.WallMs, len(r.Violations), len(r.Unsupported))
			}
		}
	}
	for _, r := range results {
		if r == nil {
			continue
		}
		harnessNames[r.Job.Harness]++
		paths += r.Paths
		decisions += r.Decisions
		obligations += r.Obligations
		discharged += r.Discharged
		trivial += r.Trivial
		unknown += r.Unknown
		infeasible += r.Infeasible
		queries += r.Queries
		solverMs += r.SolverMs
		if r.PathCap {
			pathCaps++
		}
		for _, f := range r.Funcs {
			funcs[f] = true
		}
		crossChecked += r.CrossChecked
		crossUnknown += r.CrossUnknown
		for _, d := range r.CrossDisagree {
			crossDisagree = append(crossDisagree, fmt.Sprintf("%s%v: %s", r.Job.Harness, r.Job.Args, d))
		}
		for k, n := range r.Unsupported {
			unsupported[k] += n
			noteWhere(k, r.Job)
		}
		for k, n := range r.Unwind {
			unwind[k] += n
			noteWhere(k, r.Job)
		}
		for k, n := range r.Reach {
			reach[k] += n
		}
		for k, n := range r.Asserts {
			asserts[k] += n
		}
		if r.Crash != "" {
			crashes = append(crashes, fmt.Sprintf("%s%v: %s", r.Job.Harness, r.Job.Args, firstLines(r.Crash, 12)))
			continue
		}
		if r.Completed == 0 && len(r.Violations) == 0 && len(r.Unsupported) == 0 && len(r.Unwind) == 0 {
			vacuous = append(vacuous, fmt.Sprintf("%s%v", r.Job.Harness, r.Job.Args))
		}
		if r.Witness != nil {
			witnesses = append(witnesses, witnessItem{job: r.Job, w: r.Witness, obs: r.WitnessObs, first: true})
			for _, mw := range r.MoreWitness {
				witnesses = append(witnesses, witnessItem{job: r.Job, w: mw.W, obs: mw.Obs})
			}
			if len(samples) < 6 {
				samples = append(samples, map[string]any{"harness": r.Job.Harness, "args": r.Job.Args, "paths": r.Paths, "obligations": r.Obligations, "witness_model": r.Witness.Model, "observed": r.WitnessObs})
			}
		}
		for _, v := range r.Violations {
			if v.Known != "" && len(knownInstances[v.Known]) < 400 {
				knownInstances[v.Known] = append(knownInstances[v.Known], fmt.Sprintf("%s%v %s", v.Harness, v.Args, v.Name))
			}
			key := fmt.Sprintf("%s|%s|%s|%s", v.Harness, v.Kind, v.Name, v.Known)
			if v.Kind == "panic" || v.Kind == "mutation" || v.Kind == "deadlock" {
				key += "|" + firstLines(v.Detail, 1)
			}
			if seenKey[key] {
				continue
			}
			seenKey[key] = true
			cands = append(cands, cand{v, key})
		}
	}
	sort.Slice(cands, func(i, j int) bool { return cands[i].key < cands[j].key })

	// native replay of counterexamples
	nViol, nKnown, nDiscrepancy, nReplayed := 0, 0, 0, 0
	var lines []string
	var discrepancies []string
	knownPrinted := map[string]bool{}
	for _, c := range cands {
		v := c.v
		ok := false
		var o *replayOutcome
		if noReplay[v.Harness] || v.NoNative {
			ok = true // schedule counterexample: deterministic re-execution in the executor is the confirmation
		} else {
			o = rep.replay(v)
			nReplayed++
			ok = reproduced(v, o)
		}
		if !ok {
			nDiscrepancy++
			detail := ""
			if o != nil {
				b, _ := json.Marshal(o)
				detail = string(b)
				if len(detail) > 600 {
					detail = detail[:600]
				}
			}
			discrepancies = append(discrepancies, fmt.Sprintf("%s %s/%s not reproduced natively: %s | symbolic: %s", v.Harness, v.Kind, v.Name, detail, firstLines(v.Detail, 2)))
			continue
		}
		if v.Known != "" {
			nKnown++
			if !knownPrinted[v.Known] {
				knownPrinted[v.Known] = true
				what := v.Known
				if k := knownFindings[v.Known]; k != nil {
					what = v.Known + " " + k.What
				}
				lines = append(lines, fmt.Sprintf("KNOWN-FINDING: property=%s %s", *prop, what))
			}
			continue
		}
		nViol++
		dir := filepath.Join(verifDir, "replays", *prop)
		os.MkdirAll(dir, 0755)
		b, _ := json.MarshalIndent(v, "", " ")
		h := sha1.Sum(b)
		_, hname, _ := strings.Cut(v.Harness, ".")
		path := filepath.Join(dir, fmt.Sprintf("%s-%x.json", hname, h[:5]))
		os.WriteFile(path, b, 0644)
		lines = append(lines, fmt.Sprintf("VIOLATION property=%s replay=%s", *prop, path))
		lines = append(lines, fmt.Sprintf("  %s%v %s/%s: %s", v.Harness, v.Args, v.Kind, v.Name, firstLines(v.Detail, 3)))
	}

	// witness replay = translator validation
	nWitness, nWitnessBad := 0, 0
	var witnessBad []string
	maxW := 48
	if *tier == "thorough" {
		maxW = 300
	}
	rng.Shuffle(len(witnesses), func(i, j int) { witnesses[i], witnesses[j] = witnesses[j], witnesses[i] })
	// one witness per harness name first, then first-path and later-path witnesses
	// alternately up to the cap
	seenH := map[string]bool{}
	var chosen []witnessItem
	taken := make([]bool, len(witnesses))
	for i, r := range witnesses {
		if !seenH[r.job.Harness] && !noReplay[r.job.Harness] {
			seenH[r.job.Harness] = true
			chosen = append(chosen, r)
			taken[i] = true
		}
	}
	for pass := 0; pass < 2; pass++ {
		for i, r := range witnesses {
			if len(chosen) >= maxW {
				break
			}
			// pass 0: later paths (the ones a first-path witness never reaches)
			if taken[i] || noReplay[r.job.Harness] || (pass == 0) == r.first {
				continue
			}
			chosen = append(chosen, r)
			taken[i] = true
		}
	}
	var wmu sync.Mutex
	var wwg sync.WaitGroup
	sem := make(chan struct{}, 8)
	for _, r := range chosen {
		wwg.Add(1)
		go func(r witnessItem) {
			defer wwg.Done()
			sem <- struct{}{}
			defer func() { <-sem }()
			o := rep.replay(r.w)
			wmu.Lock()
			defer wmu.Unlock()
			nWitness++
			bad := ""
			switch {
			case o.Error != "":
				bad = o.Error
			case o.AssumeFailed:
				bad = "model violates a harness assumption natively"
			case o.Panicked:
				bad = "native run panicked: " + o.PanicMsg
			case len(o.FailedAssert) > 0:
				bad = "native run failed assertions the executor proved: " + strings.Join(o.FailedAssert, ",")
			default:
				for k, want := range r.obs {
					if got, ok := o.Obs[k]; !ok || got != want {
						if want == "<opaque>" {
							continue
						}
						bad = fmt.Sprintf("observation %s: executor predicted %s, native gave %s", k, want, got)
						break
					}
				}
			}
			if bad != "" {
				nWitnessBad++
				witnessBad = append(witnessBad, fmt.Sprintf("%s%v: %s", r.job.Harness, r.job.Args, firstLines(bad, 6)))
			}
		}(r)
	}
	wwg.Wait()

	inconclusive := unknown + len(unsupported) + len(unwind) + len(crashes) + nDiscrepancy + pathCaps
	fnList := make([]string, 0, len(funcs))
	for f := range funcs {
		fnList = append(fnList, f)
	}
	sort.Strings(fnList)
	hn := make([]string, 0, len(harnessNames))
	for h, n := range harnessNames {
		hn = append(hn, fmt.Sprintf("%s x%d", h, n))
	}
	sort.Strings(hn)
	if len(samples) == 0 {
		samples = append(samples, "no harness completed")
	}
	ev := map[string]any{
		"property_id": *prop,
		"tier":        *tier,
		"seed":        seed,
		"level":       "model_checking",
		"wall_s":      time.Since(start).Seconds(),
		"violations":  nViol,
		"assumptions": spec.Assumptions,
		"coverage": map[string]any{
			"states":                        max(paths, 1),
			"transitions":                   max(decisions, 1),
			"traces_validated_against_impl": nWitness - nWitnessBad + nReplayed - nDiscrepancy,
			"samples":                       samples,
			"obligations":                   obligations,
			"discharged":                    discharged,
			"discharged_trivially":          trivial,
			"solver_unknown":                unknown,
			"queries":                       queries,
			"solver_time_s":                 float64(solverMs) / 1000,
			"solver":                        "z3 5.1.0 (z3-new -in, one process per worker, push/pop mirroring the path condition)",
			"jobs":                          len(jobs),
			"harnesses":                     hn,
			"infeasible_paths":              infeasible,
			"functions_encoded":             fnList,
			"bounds":                        spec.Bounds,
			"outside_claim":                 spec.Outside,
			"trusted_base":                  spec.Trusted,
			"rule":                          spec.Rule,
			"inconclusive":                  inconclusive,
			"unsupported":                   unsupported,
			"unwind_or_caps":                unwind,
			"path_caps_hit":                 pathCaps,
			"crashes":                       crashes,
			"vacuous_harnesses":             vacuous,
			"counterexamples_replayed":      nReplayed,
			"encoding_discrepancies":        discrepancies,
			"known_finding_instances":       knownInstances,
			"second_solver":                 map[string]any{"solver": "cvc5 1.0 (--incremental)", "unsat_verdicts_rechecked": crossChecked, "agreed": crossChecked - crossUnknown - len(crossDisagree), "unknown_or_timeout": crossUnknown, "disagreements": crossDisagree, "sampling": "first non-trivial obligation of each job, then every 128th; 2 s per query"},
			"witnesses_replayed":            nWitness,
			"witness_mismatches":            witnessBad,
			"known_findings_matched":        nKnown,
			"reach":                         reach,
			"assertions":                    asserts,
			"explanation":                   "bounded symbolic execution of the real SSA of /repo's working tree; each assertion is the SMT query pc ∧ ¬assertion; unsat = holds for all values within the bounds",
		},
	}
	os.MkdirAll(filepath.Join(verifDir, "evidence"), 0755)
	b, _ := json.MarshalIndent(ev, "", " ")
	os.WriteFile(filepath.Join(verifDir, "evidence", *prop+".json"), b, 0644)

	for _, l := range lines {
		fmt.Println(l)
	}
	for k, n := range unsupported {
		fmt.Printf("INCONCLUSIVE unsupported (%d paths): %s [%s]\n", n, k, strings.Join(inconclusiveWhere[k], " "))
	}
	for k, n := range unwind {
		fmt.Printf("INCONCLUSIVE bound (%d paths): %s [%s]\n", n, k, strings.Join(inconclusiveWhere[k], " "))
	}
	for _, c := range crashes {
		fmt.Println("INCONCLUSIVE crash:", c)
	}
	for _, d := range discrepancies {
		fmt.Println("INCONCLUSIVE encoding-discrepancy:", d)
	}
	fmt.Printf("%s %s: jobs=%d paths=%d obligations=%d discharged=%d (trivial %d) unknown=%d violations=%d known=%d witnesses=%d/%d wall=%.1fs solver=%.1fs\n",
		*prop, *tier, len(jobs), paths, obligations, discharged, trivial, unknown, nViol, nKnown, nWitness-nWitnessBad, nWitness, time.Since(start).Seconds(), float64(solverMs)/1000)
	if nViol > 0 {
		return 1
	}
	if len(vacuous) > 0 {
		fmt.Println("BROKEN-CHECK vacuous harnesses (no path reaches the end):", strings.Join(vacuous, " "))
		return 2
	}
	if len(crossDisagree) > 0 {
		for _, d := range crossDisagree {
			fmt.Println("BROKEN-CHECK solver disagreement (z3 unsat, cvc5 sat):", d)
		}
		return 2
	}
	if nWitnessBad > 0 {
		for _, w := range witnessBad {
			fmt.Println("BROKEN-CHECK witness mismatch:", w)
		}
		return 2
	}
	return 0
}

func firstLines(s string, n int) string {
	parts := strings.SplitN(s, "\n", n+1)
	if len(parts) > n {
		parts = parts[:n]
	}
	return strings.Join(parts, " | ")
}

func replayMain(args []string) int {
	fs := flag.NewFlagSet("replay", flag.ExitOnError)
	repo := fs.String("repo", "/repo", "repository")
	fs.Parse(args)
	if fs.NArg() < 1 {
		fmt.Println("usage: gosym replay <file.json>")
		return 2
	}
	data, err := os.ReadFile(fs.Arg(0))
	if err != nil {
		fmt.Println(err)
		return 2
	}
	var v Violation
	if err := json.Unmarshal(data, &v); err != nil {
		fmt.Println(err)
		return 2
	}
	rep, err := newReplayer(*repo)
	if err != nil {
		fmt.Println(err)
		return 2
	}
	defer rep.close()
	o := rep.replay(&v)
	b, _ := json.MarshalIndent(o, "", " ")
	fmt.Println(string(b))
	if reproduced(&v, o) {
		fmt.Println("REPRODUCED", v.Kind, v.Name)
		return 1
	}
	fmt.Println("NOT-REPRODUCED")
	return 0
}
