package main

// Values and memory of the symbolic executor.
//
//   scalars (bool, all integer kinds)  *Term            (Bool sort / BitVec)
//   floats                              float64 or *FloatV (only the Duration.Seconds kernel)
//   string                              *StrV
//   pointer                             *Cell (nil pointer = (*Cell)(nil))
//   slice                               *SliceV
//   struct / array rvalues              *AggV
//   interface                           *IfaceV (nil interface = (*IfaceV)(nil))
//   map                                 *MapV (nil map = (*MapV)(nil))
//   func                                *FuncV (nil = (*FuncV)(nil))
//   chan                                *ChanV
//   tuple                               []Value
//
// Memory is a forest of Cells. A pointer is a *Cell; the address of a field or
// element is the child cell. All writes go through Cell.set so they can be
// undone (trail) when a path is abandoned and the next one re-executed from the
// post-initialisation state.

import (
	"fmt"
	"go/types"
	"sort"
	"strings"

	"golang.org/x/tools/go/ssa"
)

type Value = any

type Cell struct {
	v     Value
	kids  []*Cell
	t     types.Type
	id    int
	par   *Cell
	idx   int
	epoch int
	label string
}

type StrV struct {
	b      []*Term // bytes (concrete length)
	opaque string  // non-empty: opaque string with this identity; b unused
}

type SliceV struct {
	arr  *Cell // array cell (kids = elements); nil for nil slice
	off  int
	len_ *Term // 64-bit
	cap_ *Term
}

type AggV struct {
	f []Value
}

type IfaceV struct {
	t types.Type
	v Value
}

type mapEnt struct {
	k, v Value
	seq  int
}

type MapV struct {
	m    map[string]*mapEnt
	seq  int
	id   int
	kt   types.Type
	vt   types.Type
	epoch int
}

type FuncV struct {
	fn    *ssa.Function
	free  []Value
	intr  string // intrinsic function value (no SSA)
	recv  Value  // for intrinsic bound methods
	id    int
}

type FloatV struct {
	// float64(num)/den, num a 64-bit signed term; only what Duration.Seconds needs
	num *Term
	f   float64
	sym bool
}

// RType is the model of a reflect.Type (canonical per types.Type).
type RType struct {
	t  types.Type
	id int
}

// RValue is the model of a reflect.Value.
type RValue struct {
	t    types.Type
	cell *Cell // addressable location, or nil
	v    Value // rvalue when cell == nil
	ok   bool  // valid
}

type trailEnt struct {
	c   *Cell
	old Value
	m   *MapV
	key string
	ent *mapEnt
	had bool
}

// ---------------------------------------------------------------------------

func mkStr(s string) *StrV {
	b := make([]*Term, len(s))
	for i := 0; i < len(s); i++ {
		b[i] = Const(8, uint64(s[i]))
	}
	return &StrV{b: b}
}

func (s *StrV) concrete() (string, bool) {
	if s.opaque != "" {
		return "", false
	}
	bs := make([]byte, len(s.b))
	for i, t := range s.b {
		if !t.IsConst() {
			return "", false
		}
		bs[i] = byte(t.val)
	}
	return string(bs), true
}

func (s *StrV) String() string {
	if s.opaque != "" {
		return "<opaque:" + s.opaque + ">"
	}
	if c, ok := s.concrete(); ok {
		return fmt.Sprintf("%q", c)
	}
	return fmt.Sprintf("<sym string len %d>", len(s.b))
}

func intT(v int64) *Term   { return Const(64, uint64(v)) }
func isNilIface(v Value) bool {
	i, ok := v.(*IfaceV)
	return ok && i == nil
}

func (in *Interp) newCell(t types.Type) *Cell {
	in.cellSeq++
	c := &Cell{t: t, id: in.cellSeq, epoch: in.epoch}
	return c
}

// alloc allocates a zero-initialised object of type t.
func (in *Interp) alloc(t types.Type) *Cell {
	c := in.newCell(t)
	if isReflectValue(t) {
		c.v = &RValue{}
		return c
	}
	switch u := t.Underlying().(type) {
	case *types.Struct:
		c.kids = make([]*Cell, u.NumFields())
		for i := range c.kids {
			k := in.alloc(u.Field(i).Type())
			k.par, k.idx = c, i
			c.kids[i] = k
		}
	case *types.Array:
		n := int(u.Len())
		c.kids = make([]*Cell, n)
		for i := range c.kids {
			k := in.alloc(u.Elem())
			k.par, k.idx = c, i
			c.kids[i] = k
		}
	default:
		c.v = in.zero(t)
	}
	return c
}

// allocArray allocates an array object [n]elem.
func (in *Interp) allocArray(elem types.Type, n int) *Cell {
	c := in.newCell(types.NewArray(elem, int64(n)))
	c.kids = make([]*Cell, n)
	_, isAgg := isAggregate(elem)
	var z Value
	if !isAgg {
		z = in.zero(elem)
	}
	for i := range c.kids {
		var k *Cell
		if isAgg {
			k = in.alloc(elem)
		} else {
			k = in.newCell(elem)
			k.v = z
		}
		k.par, k.idx = c, i
		c.kids[i] = k
	}
	return c
}

func isAggregate(t types.Type) (types.Type, bool) {
	if isReflectValue(t) {
		return nil, false
	}
	switch u := t.Underlying().(type) {
	case *types.Struct, *types.Array:
		return u, true
	}
	return nil, false
}

func basicWidth(b *types.Basic) int {
	switch b.Kind() {
	case types.Int8, types.Uint8:
		return 8
	case types.Int16, types.Uint16:
		return 16
	case types.Int32, types.Uint32:
		return 32
	case types.Int, types.Uint, types.Int64, types.Uint64, types.Uintptr, types.UntypedInt, types.UntypedRune:
		return 64
	}
	return 0
}

func isSigned(t types.Type) bool {
	if b, ok := t.Underlying().(*types.Basic); ok {
		return b.Info()&types.IsInteger != 0 && b.Info()&types.IsUnsigned == 0
	}
	return false
}

func intWidth(t types.Type) int {
	if b, ok := t.Underlying().(*types.Basic); ok {
		return basicWidth(b)
	}
	return 0
}

func (in *Interp) zero(t types.Type) Value {
	if isReflectValue(t) {
		return &RValue{}
	}
	switch u := t.Underlying().(type) {
	case *types.Basic:
		switch {
		case u.Info()&types.IsBoolean != 0:
			return TT.False
		case u.Info()&types.IsInteger != 0:
			return Const(basicWidth(u), 0)
		case u.Info()&types.IsFloat != 0:
			return float64(0)
		case u.Info()&types.IsString != 0:
			return in.emptyStr
		case u.Kind() == types.UnsafePointer:
			return (*Cell)(nil)
		case u.Kind() == types.UntypedNil:
			return nil
		case u.Info()&types.IsComplex != 0:
			return complex128(0)
		}
	case *types.Pointer:
		return (*Cell)(nil)
	case *types.Slice:
		return &SliceV{len_: intT(0), cap_: intT(0)}
	case *types.Struct:
		a := &AggV{f: make([]Value, u.NumFields())}
		for i := range a.f {
			a.f[i] = in.zero(u.Field(i).Type())
		}
		return a
	case *types.Array:
		a := &AggV{f: make([]Value, u.Len())}
		if len(a.f) > 0 {
			z := in.zero(u.Elem())
			for i := range a.f {
				a.f[i] = z // aggregates are immutable values: sharing is fine
			}
		}
		return a
	case *types.Interface:
		return (*IfaceV)(nil)
	case *types.Map:
		return (*MapV)(nil)
	case *types.Signature:
		return (*FuncV)(nil)
	case *types.Chan:
		return (*ChanV)(nil)
	case *types.Tuple:
		r := make([]Value, u.Len())
		for i := range r {
			r[i] = in.zero(u.At(i).Type())
		}
		return r
	}
	panic(fmt.Sprintf("zero: unsupported type %s", t))
}

// load reads the value stored in a cell (deep for aggregates).
func (in *Interp) load(c *Cell) Value {
	if c.kids != nil || isAggCell(c) {
		a := &AggV{f: make([]Value, len(c.kids))}
		for i, k := range c.kids {
			a.f[i] = in.load(k)
		}
		return a
	}
	return c.v
}

func isAggCell(c *Cell) bool {
	if c.t == nil {
		return false
	}
	_, ok := isAggregate(c.t)
	return ok
}

// store writes v into the cell (deep for aggregates).
func (in *Interp) store(c *Cell, v Value) {
	if c.kids != nil || isAggCell(c) {
		a, ok := v.(*AggV)
		if !ok {
			panic(fmt.Sprintf("store: aggregate cell %s gets %T", c.t, v))
		}
		if len(a.f) != len(c.kids) {
			panic(fmt.Sprintf("store: arity mismatch %d vs %d for %s", len(a.f), len(c.kids), c.t))
		}
		for i, k := range c.kids {
			in.store(k, a.f[i])
		}
		return
	}
	in.set(c, v)
}

func (in *Interp) set(c *Cell, v Value) {
	if c.epoch != in.epoch {
		in.trail = append(in.trail, trailEnt{c: c, old: c.v})
	}
	if in.watch != nil {
		in.watchStore(c, v)
	}
	if in.writeMark > 0 && c.id > 0 && c.id <= in.writeMark {
		r := rootOf(c)
		w := r.label
		if w == "" && r.t != nil {
			w = r.t.String()
		}
		in.foreignWrites = append(in.foreignWrites, w)
	}
	c.v = v
}

func (in *Interp) undoTrail() {
	for i := len(in.trail) - 1; i >= 0; i-- {
		e := &in.trail[i]
		if e.c != nil {
			e.c.v = e.old
		} else if e.m != nil {
			if e.had {
				e.m.m[e.key] = e.ent
			} else {
				delete(e.m.m, e.key)
			}
		}
	}
	in.trail = in.trail[:0]
}

func rootOf(c *Cell) *Cell {
	for c.par != nil {
		c = c.par
	}
	return c
}

// ---------------------------------------------------------------------------
// maps

func (in *Interp) newMap(kt, vt types.Type) *MapV {
	in.cellSeq++
	return &MapV{m: map[string]*mapEnt{}, id: in.cellSeq, kt: kt, vt: vt, epoch: in.epoch}
}

// keyString gives a canonical string for a concrete key; ok=false if symbolic.
func (in *Interp) keyString(v Value) (string, bool) {
	var sb strings.Builder
	ok := in.writeKey(&sb, v)
	return sb.String(), ok
}

func (in *Interp) writeKey(sb *strings.Builder, v Value) bool {
	switch x := v.(type) {
	case *Term:
		if !x.IsConst() {
			return false
		}
		fmt.Fprintf(sb, "i%d:%d;", x.w, x.val)
	case *StrV:
		if x.opaque != "" {
			fmt.Fprintf(sb, "o:%s;", x.opaque)
			return true
		}
		s, ok := x.concrete()
		if !ok {
			return false
		}
		fmt.Fprintf(sb, "s%d:%s;", len(s), s)
	case *Cell:
		if x == nil {
			sb.WriteString("p0;")
		} else {
			fmt.Fprintf(sb, "p%d;", x.id)
		}
	case *IfaceV:
		if x == nil {
			sb.WriteString("nil;")
			return true
		}
		fmt.Fprintf(sb, "I<%s>", typeKey(x.t))
		return in.writeKey(sb, x.v)
	case *AggV:
		sb.WriteString("{")
		for _, f := range x.f {
			if !in.writeKey(sb, f) {
				return false
			}
		}
		sb.WriteString("}")
	case *RType:
		fmt.Fprintf(sb, "T%d;", x.id)
	case float64:
		fmt.Fprintf(sb, "f%v;", x)
	case *ChanV:
		fmt.Fprintf(sb, "c%p;", x)
	case *FuncV:
		fmt.Fprintf(sb, "fn%p;", x)
	case *MapV:
		fmt.Fprintf(sb, "m%p;", x)
	case *CtxV:
		fmt.Fprintf(sb, "ctx%d;", x.id)
	default:
		panic(fmt.Sprintf("map key of unsupported kind %T", v))
	}
	return true
}

func typeKey(t types.Type) string {
	return types.TypeString(t, func(p *types.Package) string { return p.Path() })
}

func (in *Interp) mapSet(m *MapV, k, v Value) {
	ks, ok := in.keyString(k)
	if !ok {
		in.unsupported("map update with symbolic key")
	}
	old, had := m.m[ks]
	if m.epoch != in.epoch {
		in.trail = append(in.trail, trailEnt{m: m, key: ks, ent: old, had: had})
	}
	seq := m.seq
	if had {
		seq = old.seq
	} else {
		m.seq++
	}
	m.m[ks] = &mapEnt{k: k, v: v, seq: seq}
}

func (in *Interp) mapDelete(m *MapV, k Value) {
	ks, ok := in.keyString(k)
	if !ok {
		in.unsupported("map delete with symbolic key")
	}
	old, had := m.m[ks]
	if !had {
		return
	}
	if m.epoch != in.epoch {
		in.trail = append(in.trail, trailEnt{m: m, key: ks, ent: old, had: true})
	}
	delete(m.m, ks)
}

// mapGet looks k up; symbolic keys fork over the entries ("equals key i" / none).
func (in *Interp) mapGet(m *MapV, k Value) (Value, bool) {
	if m == nil {
		return nil, false
	}
	if ks, ok := in.keyString(k); ok {
		e, ok := m.m[ks]
		if !ok {
			return nil, false
		}
		return e.v, true
	}
	ents := m.sorted()
	for _, e := range ents {
		eq := in.equalTerm(k, e.k)
		if in.branch(eq) {
			return e.v, true
		}
	}
	return nil, false
}

func (m *MapV) sorted() []*mapEnt {
	ents := make([]*mapEnt, 0, len(m.m))
	for _, e := range m.m {
		ents = append(ents, e)
	}
	sort.Slice(ents, func(i, j int) bool { return ents[i].seq < ents[j].seq })
	return ents
}

// ---------------------------------------------------------------------------
// equality

// equalTerm returns the Bool term for x == y (Go semantics).
func (in *Interp) equalTerm(x, y Value) *Term {
	switch a := x.(type) {
	case *Term:
		b := y.(*Term)
		return Eq(a, b)
	case *StrV:
		b := y.(*StrV)
		if a.opaque != "" || b.opaque != "" {
			if a.opaque != "" && a.opaque == b.opaque {
				return TT.True
			}
			if a.opaque != "" && b.opaque != "" {
				return TT.False
			}
			in.unsupported("comparison of an opaque (formatted) string with a string")
		}
		if len(a.b) != len(b.b) {
			return TT.False
		}
		r := TT.True
		for i := range a.b {
			r = BAnd(r, Eq(a.b[i], b.b[i]))
			if r.IsFalse() {
				return r
			}
		}
		return r
	case *Cell:
		b, ok := y.(*Cell)
		if !ok {
			return TT.False
		}
		return BoolT(a == b)
	case *IfaceV:
		b, ok := y.(*IfaceV)
		if !ok {
			if y == nil {
				return BoolT(a == nil)
			}
			return TT.False
		}
		if a == nil || b == nil {
			return BoolT(a == nil && b == nil)
		}
		if !types.Identical(a.t, b.t) {
			return TT.False
		}
		if !types.Comparable(a.t) {
			in.goPanic(in.runtimeError("comparing uncomparable type "+a.t.String(), "uncomparable"))
		}
		return in.equalTerm(a.v, b.v)
	case *AggV:
		b := y.(*AggV)
		r := TT.True
		for i := range a.f {
			r = BAnd(r, in.equalTerm(a.f[i], b.f[i]))
			if r.IsFalse() {
				return r
			}
		}
		return r
	case *MapV:
		b, _ := y.(*MapV)
		return BoolT(a == b)
	case *FuncV:
		b, _ := y.(*FuncV)
		return BoolT(a == b)
	case *ChanV:
		b, _ := y.(*ChanV)
		return BoolT(a == b)
	case *SliceV:
		b, _ := y.(*SliceV)
		if a.arr == nil && (b == nil || b.arr == nil) {
			return TT.True
		}
		return BoolT(a == b)
	case *RType:
		b, _ := y.(*RType)
		return BoolT(a == b)
	case *CtxV:
		b, _ := y.(*CtxV)
		return BoolT(a == b)
	case float64:
		return BoolT(a == y.(float64))
	case nil:
		switch b := y.(type) {
		case nil:
			return TT.True
		case *IfaceV:
			return BoolT(b == nil)
		case *Cell:
			return BoolT(b == nil)
		case *MapV:
			return BoolT(b == nil)
		case *FuncV:
			return BoolT(b == nil)
		case *SliceV:
			return BoolT(b == nil || b.arr == nil)
		case *ChanV:
			return BoolT(b == nil)
		}
	}
	panic(fmt.Sprintf("equalTerm: unsupported %T vs %T", x, y))
}

// ---------------------------------------------------------------------------
// slices and strings

func (in *Interp) sliceLen(s *SliceV) int {
	n := in.concInt(s.len_, "slice length")
	if !s.len_.IsConst() {
		s.len_ = intT(n) // equal on this path; paths are re-executed from scratch
	}
	return int(n)
}

func (in *Interp) sliceElem(s *SliceV, i int) *Cell {
	return s.arr.kids[s.off+i]
}

func (in *Interp) mkSlice(elem types.Type, n, c int) *SliceV {
	arr := in.allocArray(elem, c)
	return &SliceV{arr: arr, off: 0, len_: intT(int64(n)), cap_: intT(int64(c))}
}

func (in *Interp) bytesToSlice(b []*Term) *SliceV {
	s := in.mkSlice(types.Typ[types.Uint8], len(b), len(b))
	for i, t := range b {
		s.arr.kids[i].v = t
	}
	return s
}

func (in *Interp) sliceBytes(s *SliceV) []*Term {
	n := in.sliceLen(s)
	out := make([]*Term, n)
	for i := 0; i < n; i++ {
		out[i] = in.sliceElem(s, i).v.(*Term)
	}
	return out
}

func (in *Interp) sliceValues(s *SliceV) []Value {
	n := in.sliceLen(s)
	out := make([]Value, n)
	for i := 0; i < n; i++ {
		out[i] = in.load(in.sliceElem(s, i))
	}
	return out
}

// describe a value briefly (diagnostics, evidence samples)
func (in *Interp) show(v Value) string {
	switch x := v.(type) {
	case *Term:
		if x.IsConst() {
			if x.w == 0 {
				return fmt.Sprint(x.val != 0)
			}
			return fmt.Sprintf("%d", x.Int())
		}
		return fmt.Sprintf("<sym%d>", x.w)
	case *StrV:
		return x.String()
	case *Cell:
		if x == nil {
			return "nil"
		}
		return fmt.Sprintf("&cell%d", x.id)
	case *IfaceV:
		if x == nil {
			return "nil"
		}
		return fmt.Sprintf("%s(%s)", x.t, in.show(x.v))
	case *AggV:
		parts := make([]string, len(x.f))
		for i, f := range x.f {
			parts[i] = in.show(f)
		}
		return "{" + strings.Join(parts, ",") + "}"
	case *SliceV:
		if x.arr == nil {
			return "[]nil"
		}
		return fmt.Sprintf("slice(len=%s)", in.show(x.len_))
	}
	return fmt.Sprintf("%T", v)
}
