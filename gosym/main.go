package main

import (
	"bufio"
	"encoding/json"
	"flag"
	"fmt"
	"go/token"
	"go/types"
	"os"
	"path/filepath"
	"runtime"
	"runtime/debug"
	"sort"
	"strings"

	"golang.org/x/tools/go/packages"
	"golang.org/x/tools/go/ssa"
	"golang.org/x/tools/go/ssa/ssautil"
)

const modPath = "github.com/ovh/kmip-go"

var verifDir = "/verif"

// pkgDirs maps harness directory names to repository sub-directories.
var pkgDirs = map[string]string{"kmip": ".", "ttlv": "ttlv", "payloads": "payloads", "kmipclient": "kmipclient", "kmipserver": "kmipserver", "kmiptest": "kmiptest"}

// initWhitelist: standard-library packages whose initialisers are executed.
var initWhitelist = map[string]bool{
	"errors": true, "io": true, "strconv": true, "unicode/utf8": true, "encoding/hex": true, "encoding/binary": true,
	"context": true, "math/big": true, "strings": true, "bytes": true, "slices": true, "sort": true, "math/bits": true,
	"math": true, "bufio": true, "io/fs": true, "encoding/base64": true, "internal/oserror": true, "cmp": true,
	"iter": true, "maps": true, "encoding/xml": true, "unicode": true, "internal/byteorder": true, "internal/stringslite": true, "internal/itoa": true,
	"net": false,
}

const goRoot = "/opt/veriftools/go1.26.8"

// goEnv: environment for go subprocesses (go list, go test): the newer Go
// release pre-installed beside the default one, offline.
func goEnv() []string {
	var env []string
	for _, e := range os.Environ() {
		if strings.HasPrefix(e, "PATH=") || strings.HasPrefix(e, "GOFLAGS=") || strings.HasPrefix(e, "GOTOOLCHAIN=") || strings.HasPrefix(e, "GOPROXY=") || strings.HasPrefix(e, "GOSUMDB=") {
			continue
		}
		env = append(env, e)
	}
	env = append(env, "PATH="+goRoot+"/bin:"+os.Getenv("PATH"), "GOFLAGS=-mod=mod", "GOPROXY=off", "GOSUMDB=off", "GOTOOLCHAIN=local")
	return env
}

func init() {
	os.Setenv("PATH", goRoot+"/bin:"+os.Getenv("PATH"))
}

// buildOverlay maps harness sources into the repository's package directories.
func buildOverlay(repo string, withTests bool, tmp string) (map[string][]byte, map[string]string, error) {
	overlay := map[string][]byte{}
	files := map[string]string{} // virtual -> real (for go test -overlay)
	support, err := os.ReadFile(filepath.Join(verifDir, "harness", "support.go.txt"))
	if err != nil {
		return nil, nil, err
	}
	for name, sub := range pkgDirs {
		dir := filepath.Join(verifDir, "harness", name)
		ents, err := os.ReadDir(dir)
		if err != nil {
			continue
		}
		n := 0
		for _, e := range ents {
			if !strings.HasSuffix(e.Name(), ".go") {
				continue
			}
			src, err := os.ReadFile(filepath.Join(dir, e.Name()))
			if err != nil {
				return nil, nil, err
			}
			virt := filepath.Join(repo, sub, "zz_verif_"+e.Name())
			overlay[virt] = src
			files[virt] = filepath.Join(dir, e.Name())
			n++
		}
		if n == 0 {
			continue
		}
		pkgName := name
		sup := strings.Replace(string(support), "package PKG", "package "+pkgName, 1)
		virt := filepath.Join(repo, sub, "zz_verif_support.go")
		overlay[virt] = []byte(sup)
		if tmp != "" {
			real := filepath.Join(tmp, name+"_support.go")
			if err := os.WriteFile(real, []byte(sup), 0644); err != nil {
				return nil, nil, err
			}
			files[virt] = real
		}
	}
	return overlay, files, nil
}

// repoRoot: the repository the current program was loaded from (verifReadRepoFile).
var repoRoot string

func loadProgram(repo string) (*Interp, error) {
	repoRoot = repo
	overlay, _, err := buildOverlay(repo, false, "")
	if err != nil {
		return nil, err
	}
	fset := token.NewFileSet()
	cfg := &packages.Config{
		Mode:       packages.LoadAllSyntax,
		Dir:        repo,
		Fset:       fset,
		Env:        goEnv(),
		Overlay:    overlay,
		BuildFlags: []string{"-tags=verif,math_big_pure_go,purego"},
	}
	var patterns []string
	for _, sub := range pkgDirs {
		patterns = append(patterns, "./"+sub)
	}
	sort.Strings(patterns)
	pkgs, err := packages.Load(cfg, patterns...)
	if err != nil {
		return nil, err
	}
	nerr := 0
	packages.Visit(pkgs, nil, func(p *packages.Package) {
		for _, e := range p.Errors {
			fmt.Fprintln(os.Stderr, "load error:", e)
			nerr++
		}
	})
	if nerr > 0 {
		return nil, fmt.Errorf("%d package load errors", nerr)
	}
	prog, spkgs := ssautil.AllPackages(pkgs, ssa.InstantiateGenerics)
	prog.Build()
	in := &Interp{prog: prog, fset: fset, maxValues: maxConcretize, globals: map[*ssa.Global]*Cell{}, finfo: map[*ssa.Function]*fnInfo{},
		inited: map[*ssa.Package]bool{}, emptyStr: &StrV{}, maxSteps: 500_000_000, maxDepth: 2000, maxPreempt: 2}
	for _, p := range spkgs {
		if p != nil {
			in.mainPkgs = append(in.mainPkgs, p)
		}
	}
	return in, nil
}

func (in *Interp) initAll() {
	in.initing = true
	in.epoch = 0
	in.maxSteps = 1 << 60
	in.run = &harnessRun{unsupported: map[string]int{}, unwind: map[string]int{}, reach: map[string]int{}, knownHit: map[string]int{}, assertNames: map[string]int{}}
	defer func() { in.initing = false; in.maxSteps = 500_000_000 }()
	for _, p := range in.mainPkgs {
		in.initPackage(p)
	}
}

func initAllowed(path string) bool {
	if strings.HasPrefix(path, modPath) {
		return true
	}
	return initWhitelist[path]
}

func (in *Interp) findHarness(name string) *ssa.Function {
	pkgName, fn, ok := strings.Cut(name, ".")
	if !ok {
		return nil
	}
	sub, ok := pkgDirs[pkgName]
	if !ok {
		return nil
	}
	path := modPath
	if sub != "." {
		path += "/" + sub
	}
	for _, p := range in.mainPkgs {
		if p.Pkg.Path() == path {
			return p.Func(fn)
		}
	}
	return nil
}

// ---------------------------------------------------------------------------
// worker protocol

type Job struct {
	Harness    string  `json:"harness"`
	Args       []int64 `json:"args"`
	MaxPaths   int     `json:"max_paths"`
	Unwind     int     `json:"unwind"`
	MaxPreempt int     `json:"max_preempt"`
	MaxDeviate int     `json:"max_deviate"`
	HangBound  int     `json:"hang_bound"` // >0: loops iterating more often than this are reported as non-termination
	MaxValues  int     `json:"max_values"` // values tried when a symbolic length/index is concretised (default 96)
	TimeoutMs  int     `json:"timeout_ms"`
	Solver     string  `json:"solver"`
}

// WitnessOut: a model of a completed path with the predicted observations.
type WitnessOut struct {
	W   *Violation        `json:"w"`
	Obs map[string]string `json:"obs"`
}

type JobResult struct {
	Job         Job            `json:"job"`
	Paths       int            `json:"paths"`
	Completed   int            `json:"completed"`
	Decisions   int            `json:"decisions"`
	Obligations int            `json:"obligations"`
	Discharged  int            `json:"discharged"`
	Trivial     int            `json:"trivial"`
	Unknown     int            `json:"unknown"`
	Infeasible  int            `json:"infeasible"`
	Unsupported map[string]int `json:"unsupported,omitempty"`
	Unwind      map[string]int `json:"unwind,omitempty"`
	PathCap     bool           `json:"path_cap,omitempty"`
	Violations  []*Violation   `json:"violations,omitempty"`
	Witness     *Violation     `json:"witness,omitempty"`
	WitnessObs  map[string]string `json:"witness_obs,omitempty"`
	MoreWitness []WitnessOut      `json:"more_witness,omitempty"`
	HeapMB      int               `json:"heap_mb,omitempty"`
	CrossChecked  int             `json:"cross_checked,omitempty"`
	CrossUnknown  int             `json:"cross_unknown,omitempty"`
	CrossDisagree []string        `json:"cross_disagree,omitempty"`
	Reach       map[string]int `json:"reach,omitempty"`
	KnownHit    map[string]int `json:"known_hit,omitempty"`
	Asserts     map[string]int `json:"asserts,omitempty"`
	Samples     []string       `json:"samples,omitempty"`
	Funcs       []string       `json:"funcs,omitempty"`
	Queries     int            `json:"queries"`
	SolverMs    int64          `json:"solver_ms"`
	WallMs      int64          `json:"wall_ms"`
	SolverErrs  []string       `json:"solver_errors,omitempty"`
	Crash       string         `json:"crash,omitempty"`
}

func (in *Interp) runJob(job Job) (res *JobResult) {
	res = &JobResult{Job: job}
	defer func() {
		if r := recover(); r != nil {
			res.Crash = fmt.Sprintf("%v\n%s", r, debug.Stack())
			if ie, ok := r.(*internalError); ok {
				res.Crash = ie.Error()
			}
			if in.sched != nil {
				func() {
					defer func() { recover() }()
					in.sched.killAll()
				}()
			}
			in.undoTrail()
		}
	}()
	if job.MaxPaths == 0 {
		job.MaxPaths = 20000
	}
	if job.TimeoutMs == 0 {
		job.TimeoutMs = 20000
	}
	kind := job.Solver
	if kind == "" {
		kind = "z3-new"
	}
	if in.solver == nil || in.solver.kind != kind || in.solver.timeout != job.TimeoutMs {
		if in.solver != nil {
			in.solver.Close()
		}
		s, err := NewSolver(kind, job.TimeoutMs)
		if err != nil {
			res.Crash = "solver: " + err.Error()
			return
		}
		in.solver = s
	}
	in.solver.Reset()
	TT.Purge()
	if in.cross != nil {
		in.cross.Reset()
	}
	in.unwind = job.Unwind
	in.maxPreempt = job.MaxPreempt
	in.maxDeviate = job.MaxDeviate
	in.hangBound = job.HangBound
	in.maxValues = maxConcretize
	if job.MaxValues > 0 {
		in.maxValues = job.MaxValues
	}
	in.fnSeen = map[*ssa.Function]bool{}
	in.lastModel = nil
	q0, t0 := in.solver.Queries, in.solver.Time
	in.solver.errors = nil
	run := in.runHarness(job.Harness, job.Args, job.MaxPaths)
	res.Paths, res.Completed, res.Decisions = run.paths, run.completed, run.decisions
	res.Obligations, res.Discharged, res.Trivial, res.Unknown = run.obligations, run.discharged, run.trivial, run.unknown
	res.Infeasible = run.infeasible
	res.Unsupported, res.Unwind, res.PathCap = run.unsupported, run.unwind, run.pathCap
	res.Violations = run.violations
	var ms runtime.MemStats
	runtime.ReadMemStats(&ms)
	res.HeapMB = int(ms.HeapAlloc >> 20)
	res.CrossChecked, res.CrossUnknown, res.CrossDisagree = run.crossChecked, run.crossUnknown, run.crossDisagree
	res.Reach, res.KnownHit, res.Asserts, res.Samples = run.reach, run.knownHit, run.assertNames, run.samples
	if run.witness != nil {
		res.Witness = &Violation{Harness: job.Harness, Args: job.Args, Kind: "witness", Model: run.witness, Choices: run.witnessChoices}
		res.WitnessObs = run.witnessObs
		for _, w := range run.moreWitness {
			res.MoreWitness = append(res.MoreWitness, WitnessOut{W: &Violation{Harness: job.Harness, Args: job.Args, Kind: "witness", Model: w.model, Choices: w.choices}, Obs: w.obs})
		}
	}
	for fn := range in.fnSeen {
		if p := pkgPathOf(fn); strings.HasPrefix(p, modPath) && !strings.HasPrefix(fn.Name(), "verif") && !strings.HasPrefix(fn.Name(), "Verif") {
			res.Funcs = append(res.Funcs, fn.String())
		}
	}
	sort.Strings(res.Funcs)
	res.Queries = in.solver.Queries - q0
	res.SolverMs = (in.solver.Time - t0).Milliseconds()
	res.WallMs = run.wall.Milliseconds()
	res.SolverErrs = in.solver.errors
	if len(res.SolverErrs) > 0 {
		res.Unknown++
	}
	return res
}

func workerMain(repo string) {
	debug.SetGCPercent(400)
	runtime.GOMAXPROCS(2)
	in, err := loadProgram(repo)
	if err != nil {
		fmt.Fprintln(os.Stderr, "load:", err)
		os.Exit(3)
	}
	func() {
		defer func() {
			if r := recover(); r != nil {
				fmt.Fprintf(os.Stderr, "init failed: %v\n%s\n", r, debug.Stack())
				if pe, ok := r.(*pathEnd); ok {
					fmt.Fprintln(os.Stderr, pe.reason, pe.detail)
				}
				if gp, ok := r.(*goPanic); ok {
					fmt.Fprintln(os.Stderr, gp.msg, gp.where, gp.stack)
				}
				os.Exit(3)
			}
		}()
		in.initAll()
	}()
	TT.Mark()
	fmt.Println("READY")
	sc := bufio.NewScanner(os.Stdin)
	sc.Buffer(make([]byte, 1<<20), 1<<26)
	out := bufio.NewWriter(os.Stdout)
	for sc.Scan() {
		var job Job
		if err := json.Unmarshal(sc.Bytes(), &job); err != nil {
			fmt.Fprintln(os.Stderr, "bad job:", err)
			continue
		}
		res := in.runJob(job)
		b, _ := json.Marshal(res)
		out.Write(b)
		out.WriteByte('\n')
		out.Flush()
	}
}

func main() {
	if len(os.Args) < 2 {
		fmt.Fprintln(os.Stderr, "usage: gosym worker|check|replay|one ...")
		os.Exit(2)
	}
	if v := os.Getenv("VERIF_DIR"); v != "" {
		verifDir = v
	}
	switch os.Args[1] {
	case "worker":
		fs := flag.NewFlagSet("worker", flag.ExitOnError)
		repo := fs.String("repo", "/repo", "repository")
		fs.Parse(os.Args[2:])
		workerMain(*repo)
	case "one":
		// gosym one [-repo R] harness arg...   (debugging: run in-process, print result)
		fs := flag.NewFlagSet("one", flag.ExitOnError)
		repo := fs.String("repo", "/repo", "repository")
		maxPaths := fs.Int("paths", 20000, "path cap")
		unwind := fs.Int("unwind", 0, "loop bound")
		preempt := fs.Int("preempt", 2, "preemption bound")
		deviate := fs.Int("deviate", 2, "bound on non-default choices at blocking points")
		solver := fs.String("solver", "z3-new", "solver")
		fs.Parse(os.Args[2:])
		in, err := loadProgram(*repo)
		if err != nil {
			fmt.Fprintln(os.Stderr, err)
			os.Exit(3)
		}
		func() {
			defer func() {
				if r := recover(); r != nil {
					if ie, ok := r.(*internalError); ok {
						fmt.Fprintln(os.Stderr, ie.Error())
						os.Exit(3)
					}
					if pe, ok := r.(*pathEnd); ok {
						fmt.Fprintln(os.Stderr, "init:", pe.reason, pe.detail)
					}
					if gp, ok := r.(*goPanic); ok {
						fmt.Fprintln(os.Stderr, "init panic:", gp.msg, gp.where, gp.stack)
					}
					panic(r)
				}
			}()
			in.initAll()
		}()
		job := Job{Harness: fs.Arg(0), MaxPaths: *maxPaths, Unwind: *unwind, MaxPreempt: *preempt, MaxDeviate: *deviate, Solver: *solver}
		for _, a := range fs.Args()[1:] {
			var v int64
			fmt.Sscan(a, &v)
			job.Args = append(job.Args, v)
		}
		if os.Getenv("GOSYM_DECSTATS") != "" {
			decStats = map[string]int{}
		}
		res := in.runJob(job)
		if decStats != nil {
			type kv struct {
				k string
				n int
			}
			var l []kv
			for k, n := range decStats {
				l = append(l, kv{k, n})
			}
			sort.Slice(l, func(i, j int) bool { return l[i].n > l[j].n })
			for i, e := range l {
				if i > 40 {
					break
				}
				fmt.Fprintf(os.Stderr, "%6d %s\n", e.n, e.k)
			}
		}
		res.Funcs = nil
		b, _ := json.MarshalIndent(res, "", " ")
		fmt.Println(string(b))
	case "check":
		os.Exit(checkMain(os.Args[2:]))
	case "replay":
		os.Exit(replayMain(os.Args[2:]))
	default:
		fmt.Fprintln(os.Stderr, "unknown command")
		os.Exit(2)
	}
}

var _ = types.Typ
