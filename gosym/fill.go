package main

func (in *Interp) verifFill(args []Value) Value { in.unsupported("verifFill"); return nil }
