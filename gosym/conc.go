package main

// Concurrent mode: goroutines of the program under test are coroutines (real Go
// goroutines with direct hand-off, exactly one runs at a time). Every visible
// operation (channel operation, mutex, atomic, WaitGroup, go statement,
// explicit yield of a transport stub) is a scheduling point at which the next
// goroutine to run is an explicit choice explored by the DFS; the number of
// preemptive switches per path is bounded (preemption bound P).

import (
	"fmt"
	"go/token"
	"go/types"
	"strings"

	"golang.org/x/tools/go/ssa"
)

type ChanV struct {
	id     int
	cap    int
	buf    []Value
	closed bool
	elem   types.Type
	epoch  int
	recvq  []*waiter
	sendq  []*waiter
}

type waiter struct {
	g     *Goroutine
	done  bool
	idx   int   // select case completed
	val   Value // value received / to send
	ok    bool
	cases []*waitCase
}

type waitCase struct {
	ch   *ChanV
	send bool
	val  Value
	idx  int
}

type Goroutine struct {
	id       int
	name     string
	resume   chan struct{}
	done     bool
	ready    func() bool // nil: runnable
	waitWhat string
	atomic   int // >0: inside an atomic section (no preemption)
	cur      *frame
	depth    int
	isTimer  bool
	stopped  bool
	fire     func()
}

type Scheduler struct {
	in          *Interp
	gs          []*Goroutine
	timersFired int
	main        *Goroutine
	preempt     int
	maxPreempt  int
	deviate     int
	maxDeviate  int
	killed      bool
	abort       any // pathEnd or goPanic forwarded from a child goroutine
	switches    int
	log         []string
}

type killedSignal struct{}

// CtxV is unused (the real context package is interpreted) but keeps key
// printing total.
type CtxV struct{ id int }

func (in *Interp) ensureSched() *Scheduler {
	if in.sched == nil {
		s := &Scheduler{in: in, maxPreempt: in.maxPreempt, maxDeviate: in.maxDeviate}
		g := &Goroutine{id: 0, name: "main", resume: make(chan struct{})}
		s.gs = []*Goroutine{g}
		s.main = g
		in.sched = s
		in.g = g
	}
	return in.sched
}

func (in *Interp) isConcurrent(fn *ssa.Function) bool { return false }
func (in *Interp) runConcurrent(fn *ssa.Function, args []Value) {}

func (s *Scheduler) runnable(g *Goroutine) bool {
	if g.done || (g.isTimer && g.stopped) {
		return false
	}
	return g.ready == nil || g.ready()
}

func (s *Scheduler) runnables() []*Goroutine {
	var out []*Goroutine
	for _, g := range s.gs {
		if s.runnable(g) {
			out = append(out, g)
		}
	}
	return out
}

// switchTo hands the processor from cur to next and parks cur until resumed.
func (s *Scheduler) switchTo(cur, next *Goroutine) {
	in := s.in
	if cur == next {
		return
	}
	s.switches++
	cur.cur, cur.depth = in.cur, in.depth
	in.g = next
	in.cur, in.depth = next.cur, next.depth
	next.resume <- struct{}{}
	<-cur.resume
	// resumed
	if s.killed {
		panic(killedSignal{})
	}
	in.g = cur
	in.cur, in.depth = cur.cur, cur.depth
	if cur == s.main && s.abort != nil {
		a := s.abort
		s.abort = nil
		panic(a)
	}
}

// yield is a scheduling point for goroutine g (which stays runnable).
func (s *Scheduler) yield(g *Goroutine, what string) {
	if s == nil || g == nil || g.atomic > 0 || len(s.gs) == 1 {
		return
	}
	rs := s.runnables()
	if len(rs) <= 1 {
		return
	}
	if s.preempt >= s.maxPreempt {
		return
	}
	// order: current first so that choice 0 = no preemption
	ordered := []*Goroutine{g}
	for _, r := range rs {
		if r != g {
			ordered = append(ordered, r)
		}
	}
	k := s.in.choose(len(ordered), "sched@"+what)
	if k == 0 {
		return
	}
	s.preempt++
	s.log = append(s.log, fmt.Sprintf("preempt g%d(%s) at %s -> g%d(%s)", g.id, g.name, what, ordered[k].id, ordered[k].name))
	s.switchTo(g, ordered[k])
}

// block parks g until ready() holds; other goroutines run meanwhile.
func (s *Scheduler) block(g *Goroutine, what string, ready func() bool) {
	if ready() {
		return
	}
	g.ready = ready
	g.waitWhat = what
	for !ready() {
		next := s.pickNext(g)
		if next == nil {
			g.ready = nil
			s.deadlock(g, what)
		}
		s.switchTo(g, next)
	}
	g.ready = nil
	g.waitWhat = ""
}

// pickNext chooses the next goroutine when cur cannot continue.
func (s *Scheduler) pickNext(cur *Goroutine) *Goroutine {
	rs := s.runnables()
	if len(rs) == 0 {
		return nil
	}
	// default: the lowest-numbered runnable goroutine; choosing another one is a
	// deviation, bounded per path (maxDeviate)
	k := 0
	if len(rs) > 1 && s.deviate < s.maxDeviate {
		k = s.in.choose(len(rs), "next")
		if k > 0 {
			s.deviate++
		}
	}
	s.log = append(s.log, fmt.Sprintf("g%d(%s) waits (%s) -> g%d(%s)", cur.id, cur.name, cur.waitWhat, rs[k].id, rs[k].name))
	return rs[k]
}

func (s *Scheduler) blockedList() []string {
	var out []string
	for _, g := range s.gs {
		if !g.done && !g.isTimer && g.ready != nil && !g.ready() {
			out = append(out, fmt.Sprintf("g%d(%s) on %s", g.id, g.name, g.waitWhat))
		}
	}
	return out
}

func (s *Scheduler) deadlock(g *Goroutine, what string) {
	detail := fmt.Sprintf("g%d(%s) blocked on %s with no runnable goroutine; blocked: %s", g.id, g.name, what, strings.Join(s.blockedList(), "; "))
	panic(&pathEnd{reason: "deadlock", detail: detail})
}

func (s *Scheduler) killAll() {
	s.killed = true
	for _, g := range s.gs {
		if g != s.main && !g.done {
			// every goroutine that is not done is parked on its resume channel or about
			// to park there (a freshly created one): a blocking send reaches it. (A
			// non-blocking send missed goroutines created just before the path ended —
			// timers above all — and leaked them.)
			g.resume <- struct{}{}
			<-s.main.resume
		}
	}
}

func (in *Interp) spawn(fr *frame, x *ssa.Go, fv Value, args []Value) {
	s := in.ensureSched()
	parent := in.g
	name := "go"
	switch f := fv.(type) {
	case *FuncV:
		if f != nil && f.fn != nil {
			name = f.fn.Name()
		}
	}
	if x.Call.Method != nil {
		name = x.Call.Method.Name()
	}
	g := &Goroutine{id: len(s.gs), name: name, resume: make(chan struct{})}
	s.gs = append(s.gs, g)
	call := &x.Call
	pos := x.Pos()
	go in.goroutineMain(s, g, func() {
		if call.Method != nil {
			in.invoke(nil, pos, call, fv, args)
		} else {
			in.callFunc(nil, pos, fv, args)
		}
	})
	s.yield(parent, "go")
}

func (in *Interp) goroutineMain(s *Scheduler, g *Goroutine, body func()) {
	<-g.resume
	if s.killed {
		g.done = true
		s.main.resume <- struct{}{}
		return
	}
	defer func() {
		r := recover()
		g.done = true
		switch e := r.(type) {
		case nil:
		case killedSignal:
			s.main.resume <- struct{}{}
			return
		case *goPanic:
			e.msg = fmt.Sprintf("panic in goroutine g%d(%s): %s", g.id, g.name, e.msg)
			s.abort = &childPanic{e}
		default:
			s.abort = r
		}
		if s.killed {
			s.main.resume <- struct{}{}
			return
		}
		if s.abort != nil {
			// wake main so that it raises the event
			in.g = s.main
			in.cur, in.depth = s.main.cur, s.main.depth
			s.main.resume <- struct{}{}
			return
		}
		// finished normally: hand over to someone else
		next := s.pickNext(g)
		if next == nil {
			// nothing can run: if main is blocked this is a deadlock
			s.abort = &pathEnd{reason: "deadlock", detail: "all goroutines blocked after g" + fmt.Sprint(g.id) + " finished; blocked: " + strings.Join(s.blockedList(), "; ")}
			in.g = s.main
			in.cur, in.depth = s.main.cur, s.main.depth
			s.main.resume <- struct{}{}
			return
		}
		in.g = next
		in.cur, in.depth = next.cur, next.depth
		next.resume <- struct{}{}
	}()
	in.g = g
	in.cur, in.depth = nil, 0
	body()
}

// quiesce runs the other goroutines until none is runnable (called by main).
func (s *Scheduler) quiesce(g *Goroutine) {
	for {
		var rs []*Goroutine
		for _, r := range s.runnables() {
			if r != g {
				rs = append(rs, r)
			}
		}
		if len(rs) == 0 {
			return
		}
		k := 0
		if len(rs) > 1 && s.deviate < s.maxDeviate {
			k = s.in.choose(len(rs), "quiesce")
			if k > 0 {
				s.deviate++
			}
		}
		// main stays runnable: it will be resumed when the others block or finish,
		// because pickNext may pick it; to make sure it only comes back at
		// quiescence, mark it waiting for "no other runnable".
		g.ready = func() bool {
			for _, r := range s.gs {
				if r != g && s.runnable(r) {
					return false
				}
			}
			return true
		}
		g.waitWhat = "quiescence"
		s.switchTo(g, rs[k])
		g.ready = nil
	}
}

// ---------------------------------------------------------------------------
// channels

func (in *Interp) newChan(n int, elem types.Type) *ChanV {
	in.cellSeq++
	return &ChanV{id: in.cellSeq, cap: n, elem: elem, epoch: in.epoch}
}

func (in *Interp) chanTouch(ch *ChanV) {
	if ch.closed {
		return // a closed channel is immutable: always ready, never queues a waiter
	}
	if ch.epoch != in.epoch && !in.initing {
		in.unsupported("operation on a channel created before the path started")
	}
}


func firstLive(q *[]*waiter) *waiter {
	for len(*q) > 0 {
		w := (*q)[0]
		if w.done || w.g.done {
			*q = (*q)[1:]
			continue
		}
		return w
	}
	return nil
}

func (in *Interp) sendReady(ch *ChanV) bool {
	if ch == nil {
		return false
	}
	return ch.closed || len(ch.buf) < ch.cap || firstLive(&ch.recvq) != nil
}

func (in *Interp) recvReady(ch *ChanV) bool {
	if ch == nil {
		return false
	}
	return ch.closed || len(ch.buf) > 0 || firstLive(&ch.sendq) != nil
}

// trySend performs a send if possible now.
func (in *Interp) trySend(ch *ChanV, v Value) bool {
	if ch.closed {
		in.goPanic(&goPanic{kind: "closed", msg: "send on closed channel"})
	}
	if w := firstLive(&ch.recvq); w != nil {
		ch.recvq = ch.recvq[1:]
		w.done, w.val, w.ok = true, v, true
		for _, c := range w.cases {
			if c.ch == ch && !c.send {
				w.idx = c.idx
				break
			}
		}
		return true
	}
	if len(ch.buf) < ch.cap {
		ch.buf = append(ch.buf, v)
		return true
	}
	return false
}

func (in *Interp) tryRecv(ch *ChanV) (Value, bool, bool) {
	if len(ch.buf) > 0 {
		v := ch.buf[0]
		ch.buf = ch.buf[1:]
		if w := firstLive(&ch.sendq); w != nil {
			ch.sendq = ch.sendq[1:]
			for _, c := range w.cases {
				if c.ch == ch && c.send {
					ch.buf = append(ch.buf, c.val)
					w.idx = c.idx
					break
				}
			}
			w.done = true
		}
		return v, true, true
	}
	if w := firstLive(&ch.sendq); w != nil {
		ch.sendq = ch.sendq[1:]
		var v Value
		for _, c := range w.cases {
			if c.ch == ch && c.send {
				v = c.val
				w.idx = c.idx
				break
			}
		}
		w.done = true
		return v, true, true
	}
	if ch.closed {
		return in.zero(ch.elem), false, true
	}
	return nil, false, false
}

func (in *Interp) chanSend(fr *frame, ch *ChanV, v Value) {
	s := in.ensureSched()
	g := in.g
	s.yield(g, "chan send")
	if ch == nil {
		s.block(g, "send on nil channel", func() bool { return false })
	}
	in.chanTouch(ch)
	if in.trySend(ch, v) {
		return
	}
	w := &waiter{g: g, cases: []*waitCase{{ch: ch, send: true, val: v}}}
	ch.sendq = append(ch.sendq, w)
	s.block(g, fmt.Sprintf("chan send ch%d", ch.id), func() bool { return w.done || ch.closed })
	if !w.done {
		w.done = true
		in.goPanic(&goPanic{kind: "closed", msg: "send on closed channel"})
	}
}

func (in *Interp) chanRecv(fr *frame, ch *ChanV) (Value, bool) {
	s := in.ensureSched()
	g := in.g
	s.yield(g, "chan recv")
	if ch == nil {
		s.block(g, "receive from nil channel", func() bool { return false })
	}
	in.chanTouch(ch)
	if v, ok, done := in.tryRecv(ch); done {
		return v, ok
	}
	w := &waiter{g: g, cases: []*waitCase{{ch: ch}}}
	ch.recvq = append(ch.recvq, w)
	s.block(g, fmt.Sprintf("chan recv ch%d", ch.id), func() bool { return w.done || ch.closed })
	if w.done {
		return w.val, w.ok
	}
	w.done = true
	return in.zero(ch.elem), false
}

func (in *Interp) chanClose(fr *frame, ch *ChanV) {
	s := in.ensureSched()
	if !in.initing {
		s.yield(in.g, "chan close")
	}
	if ch == nil {
		in.goPanic(&goPanic{kind: "closed", msg: "close of nil channel"})
	}
	if ch.closed {
		in.goPanic(&goPanic{kind: "closed", msg: "close of closed channel"})
	}
	if ch.epoch != in.epoch && !in.initing {
		in.unsupported("close of a channel created before the path started")
	}
	ch.closed = true
}

func (in *Interp) selectOp(fr *frame, x *ssa.Select) Value {
	s := in.ensureSched()
	g := in.g
	s.yield(g, "select")
	type st struct {
		ch   *ChanV
		send bool
		val  Value
	}
	states := make([]st, len(x.States))
	for i, c := range x.States {
		ch, _ := fr.get(c.Chan).(*ChanV)
		states[i] = st{ch: ch, send: c.Dir == types.SendOnly}
		if states[i].send {
			states[i].val = fr.get(c.Send)
		}
		if ch != nil {
			in.chanTouch(ch)
		}
	}
	result := func(idx int, recvOk bool, recvVal Value) Value {
		r := []Value{intT(int64(idx)), BoolT(recvOk)}
		for i, c := range x.States {
			if c.Dir == types.RecvOnly {
				if i == idx {
					r = append(r, recvVal)
				} else {
					r = append(r, in.zero(c.Chan.Type().Underlying().(*types.Chan).Elem()))
				}
			}
		}
		return r
	}
	var ready []int
	for i, c := range states {
		if c.send && in.sendReady(c.ch) || !c.send && in.recvReady(c.ch) {
			ready = append(ready, i)
		}
	}
	if len(ready) > 0 {
		k := 0
		if len(ready) > 1 {
			k = in.choose(len(ready), "select")
		}
		i := ready[k]
		if states[i].send {
			in.trySend(states[i].ch, states[i].val)
			return result(i, false, nil)
		}
		v, ok, _ := in.tryRecv(states[i].ch)
		return result(i, ok, v)
	}
	if !x.Blocking {
		return result(-1, false, nil)
	}
	w := &waiter{g: g}
	for i, c := range states {
		if c.ch == nil {
			continue
		}
		wc := &waitCase{ch: c.ch, send: c.send, val: c.val, idx: i}
		w.cases = append(w.cases, wc)
		if c.send {
			c.ch.sendq = append(c.ch.sendq, w)
		} else {
			c.ch.recvq = append(c.ch.recvq, w)
		}
	}
	closedCase := func() int {
		for i, c := range states {
			if c.ch != nil && c.ch.closed {
				return i
			}
		}
		return -1
	}
	s.block(g, "select", func() bool { return w.done || closedCase() >= 0 })
	if w.done {
		if states[w.idx].send {
			return result(w.idx, false, nil)
		}
		return result(w.idx, w.ok, w.val)
	}
	w.done = true
	i := closedCase()
	if states[i].send {
		in.goPanic(&goPanic{kind: "closed", msg: "send on closed channel"})
	}
	return result(i, false, in.zero(states[i].ch.elem))
}

// ---------------------------------------------------------------------------
// hidden per-object state (mutex owner, wait-group counter, sync.Map content…)

type hiddenKey struct {
	c   *Cell
	key string
}

var hiddenCells = map[hiddenKey]*Cell{}

func (in *Interp) hidden(c *Cell, key string) *Cell {
	k := hiddenKey{c, key}
	if h, ok := hiddenCells[k]; ok {
		return h
	}
	h := &Cell{epoch: c.epoch, id: -1}
	hiddenCells[k] = h
	return h
}

func fieldCell(c *Cell, name string) *Cell {
	st, ok := c.t.Underlying().(*types.Struct)
	if !ok {
		return nil
	}
	for i := 0; i < st.NumFields(); i++ {
		if st.Field(i).Name() == name {
			return c.kids[i]
		}
	}
	return nil
}

func (in *Interp) mutexLock(c *Cell, what string) {
	s := in.ensureSched()
	g := in.g
	h := in.hidden(c, "mu")
	s.yield(g, what)
	if h.v != nil {
		s.block(g, what, func() bool { return h.v == nil })
	}
	in.set(h, g)
}

func (in *Interp) mutexUnlock(c *Cell) {
	h := in.hidden(c, "mu")
	if h.v == nil {
		in.goPanic(&goPanic{kind: "user", msg: "sync: unlock of unlocked mutex"})
	}
	in.set(h, nil)
}

func init() {
	I := intrinsics
	recvCell := func(in *Interp, v Value) *Cell { return in.derefCheck(v) }
	I["(*sync.Mutex).Lock"] = func(in *Interp, caller *frame, fn *ssa.Function, args []Value) Value {
		in.mutexLock(recvCell(in, args[0]), "Mutex.Lock")
		return nil
	}
	I["(*sync.Mutex).Unlock"] = func(in *Interp, caller *frame, fn *ssa.Function, args []Value) Value {
		in.mutexUnlock(recvCell(in, args[0]))
		return nil
	}
	I["(*sync.Mutex).TryLock"] = func(in *Interp, caller *frame, fn *ssa.Function, args []Value) Value {
		h := in.hidden(recvCell(in, args[0]), "mu")
		if h.v != nil {
			return TT.False
		}
		in.set(h, in.g)
		return TT.True
	}
	I["(*sync.RWMutex).Lock"] = I["(*sync.Mutex).Lock"]
	I["(*sync.RWMutex).Unlock"] = I["(*sync.Mutex).Unlock"]
	I["(*sync.RWMutex).RLock"] = I["(*sync.Mutex).Lock"]
	I["(*sync.RWMutex).RUnlock"] = I["(*sync.Mutex).Unlock"]
	I["(*sync.Once).Do"] = func(in *Interp, caller *frame, fn *ssa.Function, args []Value) Value {
		h := in.hidden(recvCell(in, args[0]), "once")
		if h.v != nil {
			return nil
		}
		in.set(h, true)
		in.callFunc(caller, 0, args[1], nil)
		return nil
	}
	I["(*sync.WaitGroup).Add"] = func(in *Interp, caller *frame, fn *ssa.Function, args []Value) Value {
		h := in.hidden(recvCell(in, args[0]), "wg")
		n, _ := h.v.(int64)
		d := in.concInt(args[1].(*Term), "WaitGroup delta")
		n += d
		if n < 0 {
			in.goPanic(&goPanic{kind: "user", msg: "sync: negative WaitGroup counter"})
		}
		in.set(h, n)
		return nil
	}
	I["(*sync.WaitGroup).Done"] = func(in *Interp, caller *frame, fn *ssa.Function, args []Value) Value {
		h := in.hidden(recvCell(in, args[0]), "wg")
		n, _ := h.v.(int64)
		n--
		if n < 0 {
			in.goPanic(&goPanic{kind: "user", msg: "sync: negative WaitGroup counter"})
		}
		in.set(h, n)
		if s := in.sched; s != nil {
			s.yield(in.g, "WaitGroup.Done")
		}
		return nil
	}
	I["(*sync.WaitGroup).Wait"] = func(in *Interp, caller *frame, fn *ssa.Function, args []Value) Value {
		h := in.hidden(recvCell(in, args[0]), "wg")
		s := in.ensureSched()
		s.yield(in.g, "WaitGroup.Wait")
		s.block(in.g, "WaitGroup.Wait", func() bool { n, _ := h.v.(int64); return n == 0 })
		return nil
	}
	I["(*sync.WaitGroup).Go"] = nil
	delete(I, "(*sync.WaitGroup).Go")

	// sync.Map
	smap := func(in *Interp, v Value) *MapV {
		h := in.hidden(in.derefCheck(v), "map")
		if m, ok := h.v.(*MapV); ok {
			return m
		}
		m := in.newMap(nil, nil)
		in.set(h, m)
		return m
	}
	I["(*sync.Map).Load"] = func(in *Interp, caller *frame, fn *ssa.Function, args []Value) Value {
		if s := in.sched; s != nil {
			s.yield(in.g, "sync.Map.Load")
		}
		v, ok := in.mapGet(smap(in, args[0]), args[1])
		if !ok {
			v = (*IfaceV)(nil)
		}
		return []Value{v, BoolT(ok)}
	}
	I["(*sync.Map).Store"] = func(in *Interp, caller *frame, fn *ssa.Function, args []Value) Value {
		if s := in.sched; s != nil {
			s.yield(in.g, "sync.Map.Store")
		}
		in.mapSet(smap(in, args[0]), args[1], args[2])
		return nil
	}
	I["(*sync.Map).LoadOrStore"] = func(in *Interp, caller *frame, fn *ssa.Function, args []Value) Value {
		m := smap(in, args[0])
		if v, ok := in.mapGet(m, args[1]); ok {
			return []Value{v, TT.True}
		}
		in.mapSet(m, args[1], args[2])
		return []Value{args[2], TT.False}
	}
	I["(*sync.Map).Delete"] = func(in *Interp, caller *frame, fn *ssa.Function, args []Value) Value {
		in.mapDelete(smap(in, args[0]), args[1])
		return nil
	}
	// sync.Pool: a real pool — Get may hand back any object put earlier (choice)
	// or a new one, so that reuse of released objects is explored.
	I["(*sync.Pool).Get"] = func(in *Interp, caller *frame, fn *ssa.Function, args []Value) Value {
		c := in.derefCheck(args[0])
		h := in.hidden(c, "pool")
		items, _ := h.v.([]Value)
		if s := in.sched; s != nil {
			s.yield(in.g, "Pool.Get")
		}
		k := len(items)
		if len(items) > 0 {
			k = in.choose(len(items)+1, "pool")
			// what a real sync.Pool hands back cannot be forced in a native run:
			// results of this path are confirmed by re-execution, not natively
			if in.run != nil {
				in.run.poolPath = true
			}
		}
		if k < len(items) {
			it := items[k]
			rest := append(append([]Value{}, items[:k]...), items[k+1:]...)
			in.set(h, rest)
			return it
		}
		nf := fieldCell(c, "New")
		if f, _ := nf.v.(*FuncV); f != nil {
			return in.callFunc(caller, 0, f, nil)
		}
		return (*IfaceV)(nil)
	}
	I["(*sync.Pool).Put"] = func(in *Interp, caller *frame, fn *ssa.Function, args []Value) Value {
		c := in.derefCheck(args[0])
		h := in.hidden(c, "pool")
		items, _ := h.v.([]Value)
		if isNilIface(args[1]) {
			return nil
		}
		in.set(h, append(append([]Value{}, items...), args[1]))
		return nil
	}

	// sync/atomic typed values: field "v"
	vcell := func(in *Interp, v Value) *Cell { return fieldCell(in.derefCheck(v), "v") }
	yieldAtomic := func(in *Interp) {
		if s := in.sched; s != nil {
			s.yield(in.g, "atomic")
		}
	}
	for _, ty := range []string{"Int32", "Int64", "Uint32", "Uint64", "Uintptr"} {
		ty := ty
		I["(*sync/atomic."+ty+").Load"] = func(in *Interp, caller *frame, fn *ssa.Function, args []Value) Value {
			yieldAtomic(in)
			return vcell(in, args[0]).v
		}
		I["(*sync/atomic."+ty+").Store"] = func(in *Interp, caller *frame, fn *ssa.Function, args []Value) Value {
			yieldAtomic(in)
			in.set(vcell(in, args[0]), args[1])
			return nil
		}
		I["(*sync/atomic."+ty+").Add"] = func(in *Interp, caller *frame, fn *ssa.Function, args []Value) Value {
			yieldAtomic(in)
			c := vcell(in, args[0])
			n := Add(c.v.(*Term), args[1].(*Term))
			in.set(c, n)
			return n
		}
		I["(*sync/atomic."+ty+").Swap"] = func(in *Interp, caller *frame, fn *ssa.Function, args []Value) Value {
			yieldAtomic(in)
			c := vcell(in, args[0])
			old := c.v
			in.set(c, args[1])
			return old
		}
		I["(*sync/atomic."+ty+").CompareAndSwap"] = func(in *Interp, caller *frame, fn *ssa.Function, args []Value) Value {
			yieldAtomic(in)
			c := vcell(in, args[0])
			if in.branch(Eq(c.v.(*Term), args[1].(*Term))) {
				in.set(c, args[2])
				return TT.True
			}
			return TT.False
		}
		// function forms
		lt := strings.ToLower(ty[:1]) + ty[1:]
		_ = lt
		I["sync/atomic.Load"+ty] = func(in *Interp, caller *frame, fn *ssa.Function, args []Value) Value {
			yieldAtomic(in)
			return in.load(in.derefCheck(args[0]))
		}
		I["sync/atomic.Store"+ty] = func(in *Interp, caller *frame, fn *ssa.Function, args []Value) Value {
			yieldAtomic(in)
			in.store(in.derefCheck(args[0]), args[1])
			return nil
		}
		I["sync/atomic.Add"+ty] = func(in *Interp, caller *frame, fn *ssa.Function, args []Value) Value {
			yieldAtomic(in)
			c := in.derefCheck(args[0])
			n := Add(c.v.(*Term), args[1].(*Term))
			in.set(c, n)
			return n
		}
		I["sync/atomic.CompareAndSwap"+ty] = func(in *Interp, caller *frame, fn *ssa.Function, args []Value) Value {
			yieldAtomic(in)
			c := in.derefCheck(args[0])
			if in.branch(Eq(c.v.(*Term), args[1].(*Term))) {
				in.set(c, args[2])
				return TT.True
			}
			return TT.False
		}
	}
	// atomic.Bool: v uint32
	I["(*sync/atomic.Bool).Load"] = func(in *Interp, caller *frame, fn *ssa.Function, args []Value) Value {
		yieldAtomic(in)
		return BNot(Eq(vcell(in, args[0]).v.(*Term), Const(32, 0)))
	}
	I["(*sync/atomic.Bool).Store"] = func(in *Interp, caller *frame, fn *ssa.Function, args []Value) Value {
		yieldAtomic(in)
		in.set(vcell(in, args[0]), BoolToBV(args[1].(*Term), 32))
		return nil
	}
	I["(*sync/atomic.Bool).Swap"] = func(in *Interp, caller *frame, fn *ssa.Function, args []Value) Value {
		yieldAtomic(in)
		c := vcell(in, args[0])
		old := BNot(Eq(c.v.(*Term), Const(32, 0)))
		in.set(c, BoolToBV(args[1].(*Term), 32))
		return old
	}
	I["(*sync/atomic.Bool).CompareAndSwap"] = func(in *Interp, caller *frame, fn *ssa.Function, args []Value) Value {
		yieldAtomic(in)
		c := vcell(in, args[0])
		cur := BNot(Eq(c.v.(*Term), Const(32, 0)))
		if in.branch(Eq(cur, args[1].(*Term))) {
			in.set(c, BoolToBV(args[2].(*Term), 32))
			return TT.True
		}
		return TT.False
	}
	// atomic.Value: field v any
	I["(*sync/atomic.Value).Load"] = func(in *Interp, caller *frame, fn *ssa.Function, args []Value) Value {
		yieldAtomic(in)
		return vcell(in, args[0]).v
	}
	I["(*sync/atomic.Value).Store"] = func(in *Interp, caller *frame, fn *ssa.Function, args []Value) Value {
		yieldAtomic(in)
		if isNilIface(args[1]) {
			in.goPanic(&goPanic{kind: "user", msg: "sync/atomic: store of nil value into Value"})
		}
		in.set(vcell(in, args[0]), args[1])
		return nil
	}
	I["(*sync/atomic.Value).Swap"] = func(in *Interp, caller *frame, fn *ssa.Function, args []Value) Value {
		yieldAtomic(in)
		c := vcell(in, args[0])
		old := c.v
		in.set(c, args[1])
		return old
	}
	I["(*sync/atomic.Value).CompareAndSwap"] = func(in *Interp, caller *frame, fn *ssa.Function, args []Value) Value {
		yieldAtomic(in)
		c := vcell(in, args[0])
		if in.branch(in.equalTerm(c.v, args[1])) {
			in.set(c, args[2])
			return TT.True
		}
		return TT.False
	}

	// harness-visible scheduler API
	harnessAPI["verifQuiesce"] = func(in *Interp, caller *frame, fn *ssa.Function, args []Value) Value {
		s := in.ensureSched()
		s.quiesce(in.g)
		return nil
	}
	harnessAPI["verifBlockedGoroutines"] = func(in *Interp, caller *frame, fn *ssa.Function, args []Value) Value {
		if in.sched == nil {
			return intT(0)
		}
		return intT(int64(len(in.sched.blockedList())))
	}
	harnessAPI["verifLiveGoroutines"] = func(in *Interp, caller *frame, fn *ssa.Function, args []Value) Value {
		if in.sched == nil {
			return intT(0)
		}
		n := 0
		for _, g := range in.sched.gs {
			if g != in.sched.main && !g.done && !g.isTimer {
				n++
			}
		}
		return intT(int64(n))
	}
	harnessAPI["verifBlock"] = func(in *Interp, caller *frame, fn *ssa.Function, args []Value) Value {
		// verifBlock(cond func() bool): park until cond() holds (used by transport stubs)
		s := in.ensureSched()
		f := args[0]
		g := in.g
		s.yield(g, "stub")
		s.block(g, "transport stub", func() bool {
			save, saveD := in.cur, in.depth
			cur := in.g
			cur.atomic++
			r := in.callFunc(nil, 0, f, nil).(*Term)
			cur.atomic--
			in.cur, in.depth = save, saveD
			if !r.IsConst() {
				in.unsupported("verifBlock condition must be concrete")
			}
			return r.IsTrue()
		})
		return nil
	}

	// ttlv.Stream over a harness transport that speaks whole messages: the codec is
	// cut out of concurrent scenarios (byte level = C07/C02)
	streamVia := func(method string) intrinsicFn {
		return func(in *Interp, caller *frame, fn *ssa.Function, args []Value) Value {
			st := in.derefCheck(args[0])
			inner, _ := fieldCell(st, "inner").v.(*IfaceV)
			if inner != nil && in.methodSig(inner.t, method) != nil {
				r, _ := in.callMethod(caller, inner, method, args[1:]...)
				return r
			}
			return in.callSSABody(caller, fn, args)
		}
	}
	I["(*github.com/ovh/kmip-go/ttlv.Stream).Send"] = streamVia("VerifSendMsg")
	I["(*github.com/ovh/kmip-go/ttlv.Stream).Recv"] = streamVia("VerifRecvMsg")

	// time.AfterFunc: a timer pseudo-goroutine that may fire at any scheduling point
	I["time.AfterFunc"] = func(in *Interp, caller *frame, fn *ssa.Function, args []Value) Value {
		s := in.ensureSched()
		f := args[1]
		t := in.namedType("time", "Timer")
		tc := in.alloc(t)
		g := &Goroutine{id: len(s.gs), name: "timer", resume: make(chan struct{}), isTimer: true}
		s.gs = append(s.gs, g)
		in.set(in.hidden(tc, "timer"), g)
		go in.goroutineMain(s, g, func() {
			// fired: from now on an ordinary goroutine running the callback
			g.isTimer = false
			s.timersFired++
			in.callFunc(nil, token.NoPos, f, nil)
		})
		return tc
	}
	I["(*time.Timer).Stop"] = func(in *Interp, caller *frame, fn *ssa.Function, args []Value) Value {
		h := in.hidden(in.derefCheck(args[0]), "timer")
		g, _ := h.v.(*Goroutine)
		if g == nil || g.stopped || g.done || !g.isTimer {
			return TT.False
		}
		g.stopped = true
		return TT.True
	}
}
