package main

// Path exploration: re-execution DFS over decisions (symbolic branches,
// concretisations, explicit choices), assertions and their solver queries.

import (
	"os"
	"golang.org/x/tools/go/ssa"
	"fmt"
	"sort"
	"strings"
	"time"
)

var decStats map[string]int

type decKind uint8

const (
	dBranch decKind = iota
	dValue
	dChoice
)

type decision struct {
	kind   decKind
	val    int64   // chosen value (branch: 1 = true)
	forced bool    // no untried feasible alternative known
	tried  []int64 // values explored so far (dValue, dChoice)
	n      int     // number of alternatives (dChoice)
	done   bool    // all alternatives explored
	what   string
	other  bool // dBranch: other side still to explore
}

// Obligation is one assertion instance decided on a path.
type Obligation struct {
	Name   string
	Result string // unsat | sat | unknown | trivial
	TimeMs int64
}

type Violation struct {
	Harness string            `json:"harness"`
	Args    []int64           `json:"args"`
	Kind    string            `json:"kind"` // assert | panic | mutation | deadlock | leak | ...
	Name    string            `json:"name"`
	Detail  string            `json:"detail"`
	Model   map[string]uint64 `json:"model"`
	Choices []int64           `json:"choices"`
	Known   string            `json:"known,omitempty"`
	NoNative bool             `json:"no_native,omitempty"` // depends on what a sync.Pool handed back: confirmed by re-execution only
	Replay  string            `json:"replay,omitempty"`
	Stack   []string          `json:"stack,omitempty"`
}

type harnessRun struct {
	name         string
	args         []int64
	paths        int
	decisions    int
	obligations  int
	discharged   int
	trivial      int
	unknown      int
	infeasible   int
	unsupported  map[string]int
	unwind       map[string]int
	violations   []*Violation
	completed    int // paths that reached the end of the harness
	witness      Model
	witnessChoices []int64
	witnessObs   map[string]string
	moreWitness  []witnessRec
	poolPath     bool // the current path took a sync.Pool choice
	crossSeen, crossChecked, crossUnknown int
	crossDisagree []string
	reach        map[string]int
	obs          map[string]Value // observations on the current path
	obsOrder     []string
	knownHit     map[string]int
	assertNames  map[string]int
	capHit       bool
	maxPaths     int
	pathCap      bool
	samples      []string
	curKnown     string
	violKeys     map[string]int
	wall         time.Duration
}

func (in *Interp) resetPath() {
	in.undoTrail()
	// hidden per-object state of objects created on the previous path is garbage
	for k, h := range hiddenCells {
		if h.epoch != 0 {
			delete(hiddenCells, k)
		}
	}
	in.epoch++
	in.pc = in.pc[:0]
	in.pcSet = nil
	in.bind = nil
	in.rng = nil
	in.bindMemo = nil
	in.pos = 0
	in.steps = 0
	in.depth = 0
	in.nameCount = map[string]int{}
	in.watch = nil
	in.events = nil
	in.allocs = nil
	in.loopCount = nil
	in.opaqueSeq = 0
	in.numSeq = 0
	in.decCache, in.decList = nil, nil
	in.nums, in.hexes, in.times, in.timeSeq, in.timeTexts = nil, nil, nil, 0, nil
	in.cryptoSeq = 0
	in.der = nil
	in.allocLimit = nil
	in.writeMark = 0
	in.foreignWrites = nil
	in.config = nil
	in.ctxSeq = 0
	in.cur = nil
	in.g = nil
	in.sched = nil
	if in.run != nil {
		in.run.obs = map[string]Value{}
		in.run.obsOrder = nil
		in.run.curKnown = ""
		in.run.poolPath = false
	}
}

func (in *Interp) addPC(c *Term) {
	if c.IsTrue() {
		return
	}
	if c.op == OpBAnd {
		in.addPC(c.args[0])
		in.addPC(c.args[1])
		return
	}
	if c.op == OpBNot && c.args[0].op == OpBOr {
		// not (a or b) = not a and not b
		in.addPC(BNot(c.args[0].args[0]))
		in.addPC(BNot(c.args[0].args[1]))
		return
	}
	// record variable bindings implied by the conjunct
	switch {
	case c.op == OpEq && (c.args[0].op == OpVar) && c.args[1].op == OpConst:
		in.bindVar(c.args[0], c.args[1])
	case c.op == OpBVar:
		in.bindVar(c, TT.True)
	case c.op == OpBNot && c.args[0].op == OpBVar:
		in.bindVar(c.args[0], TT.False)
	}
	if in.pcSet == nil {
		in.pcSet = map[int]bool{}
	}
	if in.pcSet[c.id] {
		return
	}
	in.pcSet[c.id] = true
	in.pc = append(in.pc, c)
	in.noteBound(c)
}

func (in *Interp) bindVar(v, c *Term) {
	if in.bind == nil {
		in.bind = map[int]*Term{}
	}
	if _, ok := in.bind[v.id]; ok {
		return
	}
	in.bind[v.id] = c
	in.bindMemo = nil
}

// simp substitutes the variables fixed by the path condition.
func (in *Interp) simp(t *Term) *Term {
	if len(in.bind) == 0 || !t.sym {
		return t
	}
	if in.bindMemo == nil {
		in.bindMemo = map[int]*Term{}
	}
	return Subst(t, in.bind, in.bindMemo)
}

func (in *Interp) checkSat(extra *Term, wantModel bool) (SatResult, Model) {
	r, m := in.solver.Check(in.pc, extra, wantModel)
	if r == Sat && m != nil {
		in.lastModel = m
	}
	return r, m
}

// holdsInLastModel reports whether the last model is known to satisfy the
// whole path condition and c (cheap feasibility witness).
func (in *Interp) modelSatisfies(c *Term) bool {
	if in.lastModel == nil {
		return false
	}
	cache := map[int]uint64{}
	for _, p := range in.pc {
		if evalTerm(p, in.lastModel, cache) == 0 {
			return false
		}
	}
	return evalTerm(c, in.lastModel, cache) != 0
}

// branch decides a symbolic condition; returns the side taken on this path.
func (in *Interp) branch(c *Term) bool {
	c = in.simp(c)
	if c.IsConst() {
		return c.val != 0
	}
	if in.pos < len(in.trace) {
		d := in.trace[in.pos]
		in.pos++
		if d.kind != dBranch {
			panic(fmt.Sprintf("non-deterministic replay: expected branch, trace has kind %d (%s)", d.kind, d.what))
		}
		if d.val != 0 {
			in.addPC(c)
			return true
		}
		in.addPC(BNot(c))
		return false
	}
	// new decision
	tFeas, fFeas := false, false
	unk := false
	if ts := in.triState(c, 0); ts >= 0 {
		// decided by the variable intervals the path condition implies
		d := &decision{kind: dBranch, val: int64(ts), forced: true}
		if in.cur != nil {
			d.what = shortPos(in.fset, in.cur.pos)
		}
		in.trace = append(in.trace, d)
		in.pos++
		if ts == 1 {
			in.addPC(c)
			return true
		}
		in.addPC(BNot(c))
		return false
	}
	if in.modelSatisfies(c) {
		tFeas = true
	} else if in.modelSatisfies(BNot(c)) {
		fFeas = true
	}
	if !tFeas {
		r, _ := in.checkSat(c, true)
		tFeas = r != Unsat
		unk = unk || r == Unknown
	}
	if !tFeas {
		fFeas = true // pc is satisfiable by invariant
	} else if !fFeas {
		r, _ := in.checkSat(BNot(c), true)
		fFeas = r != Unsat
		unk = unk || r == Unknown
	}
	if unk && in.run != nil {
		in.run.unknown++
	}
	d := &decision{kind: dBranch}
	if in.cur != nil {
		d.what = shortPos(in.fset, in.cur.pos)
	}
	switch {
	case tFeas && fFeas:
		d.val = 1
		d.other = true
	case tFeas:
		d.val = 1
		d.forced = true
	default:
		d.val = 0
		d.forced = true
	}
	in.trace = append(in.trace, d)
	in.pos++
	if decStats != nil {
		if d.what == ":0" && !d.forced {
			ts := c.String()
			if len(ts) > 120 {
				ts = ts[:120]
			}
			decStats["cond "+ts]++
			if in.cur != nil {
				st := ""
				for f, n := in.cur, 0; f != nil && n < 5; f, n = f.caller, n+1 {
					st += " <- " + f.fn.String()
				}
				decStats["where"+st]++
			}
		}
		decStats["branch "+d.what+fmt.Sprintf(" forced=%v", d.forced)]++
	}
	if d.val != 0 {
		in.addPC(c)
		return true
	}
	in.addPC(BNot(c))
	return false
}

const maxConcretize = 96

// concInt returns a concrete value for t, forking over its feasible values.
func (in *Interp) concInt(t *Term, what string) int64 {
	t = in.simp(t)
	if t.IsConst() {
		return t.Int()
	}
	if in.pos < len(in.trace) {
		d := in.trace[in.pos]
		if d.kind != dValue {
			panic(fmt.Sprintf("non-deterministic replay: expected value decision, trace has kind %d (%s vs %s)", d.kind, d.what, what))
		}
		if !d.done && in.pos == len(in.trace)-1 && d.val == -1<<62 {
			// advance to the next untried value
			var excl *Term = TT.True
			for _, v := range d.tried {
				excl = BAnd(excl, BNot(Eq(t, Const(t.Width(), uint64(v)))))
			}
			r, m := in.checkSat(excl, true)
			if r != Sat {
				d.done = true
				if r == Unknown && in.run != nil {
					in.run.unknown++
				}
				panic(&pathEnd{reason: "exhausted"})
			}
			v := sext(t.Eval(m), t.w)
			if len(d.tried) >= in.maxValues {
				d.done = true
				if in.run != nil {
					in.run.capHit = true
					where := ""
					if in.cur != nil {
						where = " in " + in.cur.fn.String() + " @ " + in.fset.Position(in.cur.pos).String()
					}
					in.run.unwind["concretisation of "+what+" exceeds "+fmt.Sprint(in.maxValues)+" values"+where]++
				}
				panic(&pathEnd{reason: "exhausted"})
			}
			d.val = v
			d.tried = append(d.tried, v)
		}
		in.pos++
		in.addPC(Eq(t, Const(t.Width(), uint64(d.val))))
		return d.val
	}
	var m Model
	if in.modelSatisfies(TT.True) {
		m = in.lastModel
	} else {
		r, mm := in.checkSat(nil, true)
		if r != Sat {
			if in.run != nil {
				in.run.unknown++
			}
			panic(&pathEnd{reason: "unsupported", detail: "solver gave no model for concretisation of " + what})
		}
		m = mm
	}
	v := sext(t.Eval(m), t.w)
	if decStats != nil {
		w := what
		if in.cur != nil {
			w += " @" + shortPos(in.fset, in.cur.pos)
		}
		decStats["value "+w]++
	}
	d := &decision{kind: dValue, val: v, tried: []int64{v}, what: what}
	in.trace = append(in.trace, d)
	in.pos++
	in.addPC(Eq(t, Const(t.Width(), uint64(v))))
	return v
}

// choose is an explicit n-way nondeterministic choice (harness or scheduler).
func (in *Interp) choose(n int, what string) int {
	if n <= 1 {
		return 0
	}
	if in.pos < len(in.trace) {
		d := in.trace[in.pos]
		in.pos++
		if d.kind != dChoice || d.n != n {
			panic(fmt.Sprintf("non-deterministic replay: expected %d-way choice %q, trace has kind %d n=%d (%s)", n, what, d.kind, d.n, d.what))
		}
		return int(d.val)
	}
	d := &decision{kind: dChoice, n: n, val: 0, what: what}
	in.trace = append(in.trace, d)
	in.pos++
	return 0
}

// nextTrace computes the next trace prefix to explore; false when done.
func nextTrace(tr []*decision) ([]*decision, bool) {
	for len(tr) > 0 {
		d := tr[len(tr)-1]
		switch d.kind {
		case dBranch:
			if d.other && !d.forced {
				d.other = false
				d.val = 1 - d.val
				return tr, true
			}
		case dValue:
			if !d.done {
				d.val = -1 << 62 // marker: find next value on re-execution
				return tr, true
			}
		case dChoice:
			if int(d.val)+1 < d.n {
				d.val++
				return tr, true
			}
		}
		tr = tr[:len(tr)-1]
	}
	return nil, false
}

func (in *Interp) assume(c *Term) {
	c = in.simp(c)
	if c.IsTrue() {
		return
	}
	if c.IsFalse() {
		panic(&pathEnd{reason: "infeasible"})
	}
	if !in.modelSatisfies(c) {
		r, _ := in.checkSat(c, true)
		if r == Unsat {
			panic(&pathEnd{reason: "infeasible"})
		}
		if r == Unknown && in.run != nil {
			in.run.unknown++
		}
	}
	in.addPC(c)
}

func (in *Interp) currentChoices() []int64 {
	out := make([]int64, 0, len(in.trace))
	for _, d := range in.trace[:in.pos] {
		if d.kind == dChoice {
			out = append(out, d.val)
		}
	}
	return out
}

func (in *Interp) violation(kind, name, detail string, model Model, stack []string) {
	run := in.run
	key := kind + "|" + name + "|" + run.curKnown + "|"
	if kind != "assert" {
		d := detail
		if len(d) > 160 {
			d = d[:160]
		}
		key += d
	}
	if run.violKeys == nil {
		run.violKeys = map[string]int{}
	}
	run.violKeys[key]++
	if run.violKeys[key] > 1 {
		return
	}
	v := &Violation{Harness: run.name, Args: run.args, Kind: kind, Name: name, Detail: detail, Model: map[string]uint64{}, Choices: in.currentChoices(), Known: run.curKnown, Stack: stack, NoNative: run.poolPath}
	for k, x := range model {
		v.Model[k] = x
	}
	run.violations = append(run.violations, v)
}

// assert decides an assertion: pc ∧ ¬c satisfiable ⇒ violation with model.
func (in *Interp) assert(name string, c *Term) {
	run := in.run
	run.assertNames[name]++
	run.obligations++
	c = in.simp(c)
	if !c.IsConst() {
		c = in.narrow(c, map[int]*Term{})
	}
	if c.IsTrue() {
		run.trivial++
		run.discharged++
		return
	}
	start := time.Now()
	r, m := in.checkSat(BNot(c), true)
	_ = start
	switch r {
	case Unsat:
		run.discharged++
		in.crossCheck(name, BNot(c))
	case Sat:
		detail := "assertion " + name + " can fail"
		if in.sched != nil {
			if bl := in.sched.blockedList(); len(bl) > 0 {
				detail += "; blocked goroutines: " + strings.Join(bl, "; ")
			}
			if n := len(in.sched.log); n > 0 {
				lo := n - 12
				if lo < 0 {
					lo = 0
				}
				detail += "\nschedule tail: " + strings.Join(in.sched.log[lo:], " | ")
			}
		}
		in.violation("assert", name, detail, m, nil)
		// continue on the passing side if feasible
	default:
		run.unknown++
		run.unwind["solver unknown on assertion "+name]++
	}
	if c.IsFalse() {
		panic(&pathEnd{reason: "violation"})
	}
	if r == Sat {
		// keep exploring under the assumption the assertion held, if possible
		rr, _ := in.checkSat(c, true)
		if rr == Unsat {
			panic(&pathEnd{reason: "violation"})
		}
	}
	in.addPC(c)
}

// crossCheck re-decides a sample of the "unsat" verdicts of the primary solver
// (the first non-trivial obligation of a job, then every 128th) with an
// independent solver (cvc5). A "sat" answer there is a solver disagreement: the
// check is broken, nothing it reports is to be believed.
func (in *Interp) crossCheck(name string, negated *Term) {
	run := in.run
	if crossKind == "" {
		return
	}
	run.crossSeen++
	if run.crossSeen > 1 && run.crossSeen%128 != 0 {
		return
	}
	if in.cross == nil {
		s, err := NewSolver(crossKind, 2000)
		if err != nil {
			crossKind = ""
			return
		}
		in.cross = s
	}
	in.cross.errors = nil
	r, _ := in.cross.Check(in.pc, negated, false)
	run.crossChecked++
	switch {
	case len(in.cross.errors) > 0 || r == Unknown:
		run.crossUnknown++
	case r == Sat:
		run.crossDisagree = append(run.crossDisagree, name)
	}
}

// crossKind: the secondary solver ("" = off); set from VERIF_CROSS (default cvc5).
var crossKind = func() string {
	switch v := os.Getenv("VERIF_CROSS"); v {
	case "off", "0":
		return ""
	case "":
		return "cvc5"
	default:
		return v
	}
}()

// ---------------------------------------------------------------------------

func (in *Interp) runHarness(name string, args []int64, maxPaths int) *harnessRun {
	run := &harnessRun{name: name, args: args, unsupported: map[string]int{}, unwind: map[string]int{}, reach: map[string]int{},
		knownHit: map[string]int{}, assertNames: map[string]int{}, maxPaths: maxPaths}
	in.run = run
	start := time.Now()
	fn := in.findHarness(name)
	if fn == nil {
		panic("harness not found: " + name)
	}
	in.trace = nil
	for {
		in.resetPath()
		in.runPath(fn, args)
		run.paths++
		run.decisions += len(in.trace)
		tr, ok := nextTrace(in.trace)
		in.trace = tr
		if !ok {
			break
		}
		if run.paths >= maxPaths {
			run.pathCap = true
			break
		}
	}
	in.undoTrail()
	run.wall = time.Since(start)
	return run
}

func (in *Interp) runPath(fn *ssa.Function, args []int64) {
	run := in.run
	defer func() {
		if in.sched != nil {
			in.sched.killAll()
		}
		r := recover()
		if r == nil {
			return
		}
		switch e := r.(type) {
		case *pathEnd:
			switch e.reason {
			case "infeasible":
				run.infeasible++
			case "unsupported":
				run.unsupported[e.detail]++
			case "unwind":
				run.unwind[e.detail]++
			case "deadlock":
				_, m := in.checkSat(nil, true)
				in.violation("deadlock", "deadlock", e.detail, m, nil)
			case "exhausted", "violation", "done":
			}
		case *childPanic:
			_, m := in.checkSat(nil, true)
			in.violation("panic", e.p.kind, e.p.msg+" at "+e.p.where, m, e.p.stack)
		case *goPanic:
			// a panic escaped the harness: violation of "never panics" unless the
			// harness expects it (it would have recovered).
			_, m := in.checkSat(nil, true)
			in.violation("panic", e.kind, e.msg+" at "+e.where, m, e.stack)
		default:
			panic(r)
		}
	}()
	vals := make([]Value, len(args))
	for i, a := range args {
		vals[i] = intT(a)
	}
	if in.isConcurrent(fn) {
		in.runConcurrent(fn, vals)
	} else {
		in.callSSA(nil, 0, fn, vals, nil)
	}
	in.endOfPath()
}

type witnessRec struct {
	model   Model
	choices []int64
	obs     map[string]string
}

// endOfPath: the harness ran to completion on this path.
func (in *Interp) endOfPath() {
	run := in.run
	run.completed++
	if run.poolPath {
		return // not comparable with a native run
	}
	// reachability witness: pc satisfiable (by invariant), fetch one model
	// further witnesses on paths number 2, 3, 5, 9, 17, ... (translator validation
	// on more than the first path)
	extra := false
	if n := run.completed; n >= 2 && len(run.moreWitness) < 8 && (n == 2 || (n-1)&(n-2) == 0) {
		extra = true
	}
	if run.witness == nil || len(run.samples) < 4 || extra {
		r, m := in.checkSat(nil, true)
		if r == Sat {
			if run.witness != nil && extra {
				in.concretizeTextModel(m)
				w := witnessRec{model: m, choices: in.currentChoices(), obs: map[string]string{}}
				for _, k := range run.obsOrder {
					w.obs[k] = in.evalObs(run.obs[k], m)
				}
				run.moreWitness = append(run.moreWitness, w)
			}
			if run.witness == nil {
				in.concretizeTextModel(m)
				run.witness = m
				run.witnessChoices = in.currentChoices()
				run.witnessObs = map[string]string{}
				for _, k := range run.obsOrder {
					run.witnessObs[k] = in.evalObs(run.obs[k], m)
				}
			}
			run.samples = append(run.samples, sampleString(m))
		}
	}
}

func sampleString(m Model) string {
	keys := make([]string, 0, len(m))
	for k := range m {
		keys = append(keys, k)
	}
	sort.Strings(keys)
	var sb strings.Builder
	for i, k := range keys {
		if i >= 12 {
			fmt.Fprintf(&sb, " …(+%d)", len(keys)-i)
			break
		}
		fmt.Fprintf(&sb, "%s=%#x ", k, m[k])
	}
	return strings.TrimSpace(sb.String())
}

// evalObs renders an observed value under a model.
func (in *Interp) evalObs(v Value, m Model) string {
	switch x := v.(type) {
	case *Term:
		if x.IsBool() {
			return fmt.Sprint(x.Eval(m) != 0)
		}
		return fmt.Sprintf("%d", sext(x.Eval(m), x.w))
	case *StrV:
		if x.opaque != "" {
			return "<opaque>"
		}
		var sb strings.Builder
		for _, b := range x.b {
			fmt.Fprintf(&sb, "%02x", b.Eval(m))
		}
		return sb.String()
	case []*Term:
		var sb strings.Builder
		for _, b := range x {
			fmt.Fprintf(&sb, "%02x", b.Eval(m))
		}
		return sb.String()
	}
	return fmt.Sprintf("%T", v)
}
