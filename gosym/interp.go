package main

// SSA interpreter over mixed concrete/symbolic values.

import (
	"fmt"
	"go/constant"
	"go/token"
	"go/types"
	"os"
	"strings"

	"golang.org/x/tools/go/ssa"
	"golang.org/x/tools/go/types/typeutil"
)

type fnInfo struct {
	idx   map[ssa.Value]int
	n     int
	intr  intrinsicFn
	intrK bool // intrinsic looked up
}

type deferred struct {
	fn   Value
	args []Value
	call *ssa.CallCommon // for invoke-mode defers
	pos  token.Pos
}

type frame struct {
	in        *Interp
	fn        *ssa.Function
	info      *fnInfo
	locals    []Value
	block     *ssa.BasicBlock
	prev      *ssa.BasicBlock
	defers    []*deferred
	result    Value
	panicking bool
	panicVal  *goPanic
	caller    *frame
	g         *Goroutine
	pos       token.Pos
	loops     map[*ssa.BasicBlock]int
	phiCond   *Term // if-converted branch: phis of the join become ite(phiCond, edge(phiT), edge(phiF))
	phiT      *ssa.BasicBlock
	phiF      *ssa.BasicBlock
}

// goPanic is a Go-level panic travelling through interpreted frames.
type goPanic struct {
	val   Value  // the panic value (interface)
	kind  string // runtime error kind: index, nil, assert, closed, divide, slice, user, ...
	msg   string
	where string
	stack []string
}

type internalError struct {
	err   any
	stack []string
}

func (e *internalError) Error() string {
	return fmt.Sprintf("internal error: %v\ninterpreted stack:\n  %s", e.err, strings.Join(e.stack, "\n  "))
}

// childPanic is a Go panic that escaped a non-main goroutine (program crash).
type childPanic struct{ p *goPanic }

// pathEnd aborts the current path (not a Go panic of the program under test).
type pathEnd struct {
	reason string // "infeasible", "unsupported", "unwind", "done", "violation", "exhausted"
	detail string
}

type Interp struct {
	prog     *ssa.Program
	mainPkgs []*ssa.Package
	fset     *token.FileSet
	globals  map[*ssa.Global]*Cell
	finfo    map[*ssa.Function]*fnInfo
	rtypes   typeutil.Map // types.Type -> *RType
	rtypeSeq int
	emptyStr *StrV
	cellSeq  int
	epoch    int
	trail    []trailEnt
	funcSeq  int
	inited   map[*ssa.Package]bool
	initing  bool

	// path state
	pc        []*Term
	trace     []*decision
	pos       int
	solver    *Solver
	lastModel Model
	steps     int64
	maxSteps  int64
	depth     int
	maxDepth  int
	nameCount map[string]int
	watch     map[*Cell]bool // root array cells whose mutation is an event
	events    []string
	run       *harnessRun
	cur       *frame
	g         *Goroutine // current goroutine (concurrent mode)
	sched     *Scheduler
	maxAlloc  *Term
	allocs    []*Term
	loopCount map[*ssa.BasicBlock]int
	unwind    int
	fnSeen    map[*ssa.Function]bool
	opaqueSeq int
	timeTexts []*timeEntry
	numSeq    int
	lastDec   []*Term
	narrowBack map[int]*Term
	hangBound int // >0: a loop iterating more often (outside harness files) is a violation
	cross     *Solver // secondary solver for cross-checking unsat verdicts
	rng       map[int]urange // unsigned bounds of variables implied by the path condition
	maxValues int
	decList   []*numEntry
	decCache  map[[2]int][]*Term // (term id, signed) -> digits: one value, one text
	nums      map[string]*numEntry
	hexes     map[string][]*Term
	times     map[string]*Term
	timeSeq   int
	cryptoSeq int
	der       map[string]*derEntry
	curves    map[string]Value
	allocLimit *Term
	allocLimitName string
	writeMark int
	foreignWrites []string
	config    map[string]bool
	pcSet     map[int]bool
	bind      map[int]*Term
	bindMemo  map[int]*Term
	maxPreempt int
	maxDeviate int
	ctxSeq    int
	errTypes  map[string]types.Type
	stats     struct {
		paths, infeasible, unsupported, unwindHit int
	}
}

func (in *Interp) info(fn *ssa.Function) *fnInfo {
	fi := in.finfo[fn]
	if fi != nil {
		return fi
	}
	fi = &fnInfo{idx: map[ssa.Value]int{}}
	add := func(v ssa.Value) {
		fi.idx[v] = fi.n
		fi.n++
	}
	for _, p := range fn.Params {
		add(p)
	}
	for _, p := range fn.FreeVars {
		add(p)
	}
	for _, b := range fn.Blocks {
		for _, ins := range b.Instrs {
			if v, ok := ins.(ssa.Value); ok {
				add(v)
			}
		}
	}
	in.finfo[fn] = fi
	return fi
}

func (in *Interp) unsupported(format string, args ...any) {
	msg := fmt.Sprintf(format, args...)
	where := ""
	if in.cur != nil {
		where = in.cur.fn.String() + " @ " + in.fset.Position(in.cur.pos).String()
	}
	panic(&pathEnd{reason: "unsupported", detail: msg + " in " + where})
}

func (in *Interp) runtimeError(msg, kind string) *goPanic {
	return &goPanic{kind: kind, msg: "runtime error: " + msg}
}

func (in *Interp) goPanic(p *goPanic) {
	if p.where == "" && in.cur != nil {
		p.where = in.cur.fn.String() + " @ " + in.fset.Position(in.cur.pos).String()
		for f := in.cur; f != nil && len(p.stack) < 12; f = f.caller {
			p.stack = append(p.stack, f.fn.String())
		}
	}
	panic(p)
}

// ---------------------------------------------------------------------------
// operands

func (in *Interp) constValue(c *ssa.Const) Value {
	t := c.Type()
	if c.Value == nil {
		return in.zero(t)
	}
	switch u := t.Underlying().(type) {
	case *types.Basic:
		switch {
		case u.Info()&types.IsBoolean != 0:
			return BoolT(constant.BoolVal(c.Value))
		case u.Info()&types.IsInteger != 0:
			w := basicWidth(u)
			if u.Info()&types.IsUnsigned != 0 {
				v, _ := constant.Uint64Val(constant.ToInt(c.Value))
				return Const(w, v)
			}
			v, _ := constant.Int64Val(constant.ToInt(c.Value))
			return Const(w, uint64(v))
		case u.Info()&types.IsString != 0:
			if c.Value.Kind() == constant.String {
				return mkStr(constant.StringVal(c.Value))
			}
			// string(rune) constant
			v, _ := constant.Int64Val(constant.ToInt(c.Value))
			return mkStr(string(rune(v)))
		case u.Info()&types.IsFloat != 0:
			f, _ := constant.Float64Val(c.Value)
			return f
		case u.Info()&types.IsComplex != 0:
			re, _ := constant.Float64Val(constant.Real(c.Value))
			im, _ := constant.Float64Val(constant.Imag(c.Value))
			return complex(re, im)
		}
	}
	panic(fmt.Sprintf("constValue: %s of type %s", c.Value, t))
}

func (in *Interp) global(g *ssa.Global) *Cell {
	if c, ok := in.globals[g]; ok {
		return c
	}
	t := g.Type().(*types.Pointer).Elem()
	save := in.epoch
	if in.initing {
		in.epoch = 0
	}
	c := in.alloc(t)
	c.label = g.String()
	// sentinel errors of packages whose initialisers are not executed: distinct
	// opaque error objects named after their global
	if g.Pkg != nil && !initAllowed(g.Pkg.Pkg.Path()) && types.Identical(t, types.Universe.Lookup("error").Type()) {
		c.v = in.mkError(g.String())
	}
	// time.UTC / time.Local point at their static Location objects (package time's
	// initialiser is not executed; Local is modelled as UTC)
	if g.Pkg != nil && g.Pkg.Pkg.Path() == "time" && (g.Name() == "UTC" || g.Name() == "Local") {
		if loc := g.Pkg.Var("utcLoc"); loc != nil {
			c.v = in.global(loc)
		}
	}
	in.epoch = save
	if !in.initing {
		// created lazily inside a path: make it persistent but reset by trail
		markEpoch(c, 0)
	}
	in.globals[g] = c
	return c
}

func markEpoch(c *Cell, e int) {
	c.epoch = e
	for _, k := range c.kids {
		markEpoch(k, e)
	}
}

func (fr *frame) get(v ssa.Value) Value {
	switch x := v.(type) {
	case *ssa.Const:
		return fr.in.constValue(x)
	case *ssa.Global:
		return fr.in.globalValue(x)
	case *ssa.Function:
		return fr.in.funcValue(x)
	case *ssa.Builtin:
		return x
	}
	i, ok := fr.info.idx[v]
	if !ok {
		panic(fmt.Sprintf("get: no slot for %s (%T) in %s", v.Name(), v, fr.fn))
	}
	return fr.locals[i]
}

func (in *Interp) funcValue(fn *ssa.Function) *FuncV {
	return &FuncV{fn: fn}
}

func (fr *frame) set(v ssa.Value, x Value) {
	fr.locals[fr.info.idx[v]] = x
}

// ---------------------------------------------------------------------------
// calls

func (in *Interp) callFunc(caller *frame, pos token.Pos, fv Value, args []Value) Value {
	switch f := fv.(type) {
	case *FuncV:
		if f == nil {
			in.goPanic(in.runtimeError("invalid memory address or nil pointer dereference (nil func)", "nil"))
		}
		if f.intr != "" {
			return in.callIntrinsicValue(caller, f, args)
		}
		return in.callSSA(caller, pos, f.fn, args, f.free)
	case *ssa.Builtin:
		return in.callBuiltin(caller, f, args)
	}
	panic(fmt.Sprintf("callFunc: %T", fv))
}

func (in *Interp) callIntrinsicValue(caller *frame, f *FuncV, args []Value) Value {
	fn, ok := intrinsics[f.intr]
	if !ok {
		panic("no intrinsic " + f.intr)
	}
	if f.recv != nil {
		args = append([]Value{f.recv}, args...)
	}
	return fn(in, caller, nil, args)
}

var atomicPackages = map[string]bool{"context": true}

// callSSABody interprets fn's real body even if an intrinsic is registered.
func (in *Interp) callSSABody(caller *frame, fn *ssa.Function, args []Value) Value {
	fi := in.info(fn)
	save := fi.intr
	fi.intr, fi.intrK = nil, true
	defer func() { fi.intr = save }()
	return in.callSSA(caller, 0, fn, args, nil)
}

func (in *Interp) callSSA(caller *frame, pos token.Pos, fn *ssa.Function, args []Value, free []Value) Value {
	if fn.Synthetic == "package initializer" && fn.Pkg != nil && !initAllowed(fn.Pkg.Pkg.Path()) {
		return nil
	}
	fi := in.info(fn)
	if !fi.intrK {
		fi.intrK = true
		fi.intr = lookupIntrinsic(fn)
	}
	if fi.intr != nil {
		saveCur := in.cur
		r := fi.intr(in, caller, fn, args)
		in.cur = saveCur
		return r
	}
	if fn.Blocks == nil {
		// method of a generic type not instantiated, external, assembly
		in.unsupported("call of function without body: %s", fn.String())
	}
	if in.fnSeen != nil {
		in.fnSeen[fn] = true
	}
	in.depth++
	if in.depth > in.maxDepth {
		in.unsupported("call depth exceeded at %s", fn.String())
	}
	if in.g != nil && fn.Pkg != nil && atomicPackages[fn.Pkg.Pkg.Path()] {
		// functions of these packages are executed as one atomic step of the calling
		// goroutine (their internal mutexes are never held across a return)
		g := in.g
		g.atomic++
		defer func() { g.atomic-- }()
	}
	fr := &frame{in: in, fn: fn, info: fi, caller: caller, g: in.g}
	fr.locals = make([]Value, fi.n)
	if len(args) != len(fn.Params) {
		panic(fmt.Sprintf("callSSA %s: %d args for %d params", fn, len(args), len(fn.Params)))
	}
	for i, p := range fn.Params {
		fr.locals[fi.idx[p]] = args[i]
	}
	for i, p := range fn.FreeVars {
		fr.locals[fi.idx[p]] = free[i]
	}
	fr.block = fn.Blocks[0]
	saveCur := in.cur
	for fr.block != nil {
		in.runFrame(fr)
	}
	in.cur = saveCur
	in.depth--
	return fr.result
}

func (in *Interp) runFrame(fr *frame) {
	defer func() {
		if fr.block == nil {
			return // normal return
		}
		r := recover()
		gp, ok := r.(*goPanic)
		if !ok {
			in.depth--
			switch r.(type) {
			case *pathEnd, killedSignal, *internalError, *childPanic:
			default:
				ie := &internalError{err: r}
				for f := fr; f != nil && len(ie.stack) < 40; f = f.caller {
					ie.stack = append(ie.stack, f.fn.String()+" @ "+in.fset.Position(f.pos).String())
				}
				r = ie
			}
			panic(r) // pathEnd or internal error: propagate untouched
		}
		fr.panicking = true
		fr.panicVal = gp
		in.cur = fr
		fr.runDefers()
		if fr.panicking {
			in.depth--
			panic(fr.panicVal)
		}
		// recovered
		fr.block = fr.fn.Recover
		if fr.block == nil {
			fr.result = in.zeroResult(fr.fn)
		}
	}()
	for {
		in.cur = fr
		blk := fr.block
		if in.unwind > 0 && len(blk.Preds) > 1 {
			in.noteLoop(fr, blk)
		}
		for _, instr := range blk.Instrs {
			in.steps++
			if in.steps > in.maxSteps {
				panic(&pathEnd{reason: "unwind", detail: "step budget exceeded"})
			}
			fr.pos = instr.Pos()
			if fr.phiCond != nil {
				if _, isPhi := instr.(*ssa.Phi); !isPhi {
					fr.phiCond = nil
				}
			}
			switch in.visit(fr, instr) {
			case kReturn:
				fr.block = nil
				return
			case kJump:
				goto next
			}
		}
		panic("block without terminator")
	next:
	}
}

func (in *Interp) zeroResult(fn *ssa.Function) Value {
	res := fn.Signature.Results()
	switch res.Len() {
	case 0:
		return nil
	case 1:
		return in.zero(res.At(0).Type())
	}
	return in.zero(res)
}

func (fr *frame) runDefers() {
	for len(fr.defers) > 0 {
		d := fr.defers[len(fr.defers)-1]
		fr.defers = fr.defers[:len(fr.defers)-1]
		fr.runDefer(d)
	}
}

func (fr *frame) runDefer(d *deferred) {
	in := fr.in
	ok := false
	depth := in.depth
	defer func() {
		if !ok {
			r := recover()
			gp, isgp := r.(*goPanic)
			if !isgp {
				panic(r)
			}
			in.depth = depth
			fr.panicking = true
			fr.panicVal = gp
			in.cur = fr
		}
	}()
	if d.call != nil {
		in.invoke(fr, d.pos, d.call, d.fn, d.args)
	} else {
		in.callFunc(fr, d.pos, d.fn, d.args)
	}
	in.cur = fr
	ok = true
}

type cont int

const (
	kNext cont = iota
	kReturn
	kJump
)

// orChain recognises   if c goto T else B1;  B1: t1 = pure compare; if t1 goto T else B2; ...
// and returns the disjunction and the last block of the chain. Conditions: every
// chain block holds only side-effect-free value instructions (comparisons,
// conversions, constants' uses) and its If; the blocks have a single predecessor
// (the previous chain block); every phi of T gives the same value for all chain
// edges. The values computed in the chain blocks are set in the frame, so code
// after the chain that uses them (none in practice) still finds them.
func (in *Interp) orChain(fr *frame, first *ssa.If, c *Term) (*Term, *ssa.BasicBlock, bool) {
	b := fr.block
	target := b.Succs[0]
	cur := b
	disj := c
	n := 0
	for {
		nb := cur.Succs[1]
		if nb == target || len(nb.Preds) != 1 || len(nb.Instrs) < 2 || len(nb.Instrs) > 4 {
			break
		}
		nif, ok := nb.Instrs[len(nb.Instrs)-1].(*ssa.If)
		if !ok || nb.Succs[0] != target {
			break
		}
		pure := true
		for _, ins := range nb.Instrs[:len(nb.Instrs)-1] {
			switch v := ins.(type) {
			case *ssa.BinOp:
				switch v.Op {
				case token.EQL, token.NEQ, token.LSS, token.LEQ, token.GTR, token.GEQ:
					if _, isIface := v.X.Type().Underlying().(*types.Interface); isIface {
						pure = false
					}
					if b, isBasic := v.X.Type().Underlying().(*types.Basic); !isBasic || b.Info()&types.IsString != 0 {
						pure = false
					}
				default:
					pure = false
				}
			default:
				pure = false
			}
		}
		if !pure {
			break
		}
		// phis of the target must not distinguish the edges of the chain
		same := true
		for _, ins := range target.Instrs {
			phi, ok := ins.(*ssa.Phi)
			if !ok {
				break
			}
			var v0 ssa.Value
			for i, p := range target.Preds {
				if p == b || p == nb || in.inChain(b, p, nb) {
					if v0 == nil {
						v0 = phi.Edges[i]
					} else if phi.Edges[i] != v0 {
						same = false
					}
				}
			}
		}
		if !same {
			break
		}
		for _, ins := range nb.Instrs[:len(nb.Instrs)-1] {
			bo := ins.(*ssa.BinOp)
			in.cur = fr
			fr.pos = bo.Pos()
			if in.visit(fr, bo) != kNext {
				return nil, nil, false
			}
		}
		c2, ok := fr.get(nif.Cond).(*Term)
		if !ok {
			break
		}
		disj = BOr(disj, in.simp(c2))
		cur = nb
		n++
		if n > 64 {
			break
		}
	}
	if n == 0 {
		return nil, nil, false
	}
	return disj, cur, true
}

// inChain: is p one of the chain blocks between first and last (following else edges)?
func (in *Interp) inChain(first, p, last *ssa.BasicBlock) bool {
	for c := first; ; c = c.Succs[1] {
		if c == p {
			return true
		}
		if c == last || len(c.Succs) < 2 {
			return false
		}
	}
}

func (in *Interp) noteLoop(fr *frame, b *ssa.BasicBlock) {
	// crude loop-header detection: a block with a back edge (pred index >= own index)
	isHeader := false
	for _, p := range b.Preds {
		if p.Index >= b.Index {
			isHeader = true
			break
		}
	}
	if !isHeader {
		return
	}
	if fr.loops == nil {
		fr.loops = map[*ssa.BasicBlock]int{}
	}
	fr.loops[b]++
	if in.hangBound > 0 && fr.loops[b] > in.hangBound && fr.loops[b] <= in.unwind {
		// termination claim of the job: no loop outside the harness iterates more
		// than hangBound times on inputs of the job's (small) size
		pos := in.fset.Position(b.Instrs[0].Pos())
		if !strings.Contains(pos.Filename, "zz_verif_") {
			_, m := in.checkSat(nil, true)
			in.violation("hang", "every loop ends", fmt.Sprintf("loop at %s in %s iterated more than %d times on an input of this size", pos, fr.fn.String(), in.hangBound), m, nil)
			panic(&pathEnd{reason: "violation"})
		}
	}
	if fr.loops[b] > in.unwind {
		detail := fmt.Sprintf("loop at %s iterated more than %d times on one path", in.fset.Position(b.Instrs[0].Pos()), in.unwind)
		if os.Getenv("GOSYM_DEBUG_UNWIND") != "" {
			for f := fr; f != nil; f = f.caller {
				detail += " <- " + f.fn.String() + "@" + shortPos(in.fset, f.pos)
			}
		}
		if in.sched != nil && os.Getenv("GOSYM_DEBUG_UNWIND") != "" {
			n := len(in.sched.log)
			lo := n - 14
			if lo < 0 {
				lo = 0
			}
			detail += " | schedule tail: " + strings.Join(in.sched.log[lo:], " | ")
		}
		panic(&pathEnd{reason: "unwind", detail: detail})
	}
}

// prepareCall evaluates a CallCommon into (function value, args); for invoke
// mode fn is the receiver interface value.
func (in *Interp) prepareCall(fr *frame, call *ssa.CallCommon) (Value, []Value) {
	v := fr.get(call.Value)
	args := make([]Value, 0, len(call.Args)+1)
	if call.Method == nil {
		for _, a := range call.Args {
			args = append(args, fr.get(a))
		}
		return v, args
	}
	for _, a := range call.Args {
		args = append(args, fr.get(a))
	}
	return v, args
}

// invoke performs a dynamically dispatched method call on interface value recv.
func (in *Interp) invoke(fr *frame, pos token.Pos, call *ssa.CallCommon, recv Value, args []Value) Value {
	iv, _ := recv.(*IfaceV)
	if iv == nil {
		in.goPanic(in.runtimeError("invalid memory address or nil pointer dereference (method "+call.Method.Name()+" on nil interface)", "nil"))
	}
	if r, ok := in.invokeModel(fr, iv, call.Method, args); ok {
		return r
	}
	fn := in.lookupMethod(iv.t, call.Method)
	if fn == nil {
		panic(fmt.Sprintf("invoke: no method %s on %s", call.Method.Name(), iv.t))
	}
	return in.callSSA(fr, pos, fn, append([]Value{iv.v}, args...), nil)
}

func (in *Interp) lookupMethod(t types.Type, m *types.Func) *ssa.Function {
	return in.prog.LookupMethod(t, m.Pkg(), m.Name())
}

func (in *Interp) doCall(fr *frame, pos token.Pos, call *ssa.CallCommon) Value {
	fv, args := in.prepareCall(fr, call)
	if call.Method != nil {
		return in.invoke(fr, pos, call, fv, args)
	}
	return in.callFunc(fr, pos, fv, args)
}

// ---------------------------------------------------------------------------
// instruction dispatch

func (in *Interp) visit(fr *frame, instr ssa.Instruction) cont {
	switch x := instr.(type) {
	case *ssa.DebugRef:
	case *ssa.UnOp:
		fr.set(x, in.unop(fr, x))
	case *ssa.BinOp:
		fr.set(x, in.binop(x.Op, x.X.Type(), fr.get(x.X), fr.get(x.Y), x.Y.Type()))
	case *ssa.Call:
		fr.set(x, in.doCall(fr, x.Pos(), &x.Call))
	case *ssa.ChangeInterface:
		fr.set(x, fr.get(x.X))
	case *ssa.ChangeType:
		fr.set(x, fr.get(x.X))
	case *ssa.Convert:
		fr.set(x, in.convert(x.X.Type(), x.Type(), fr.get(x.X)))
	case *ssa.MultiConvert:
		fr.set(x, in.convert(x.X.Type(), x.Type(), fr.get(x.X)))
	case *ssa.SliceToArrayPointer:
		s := fr.get(x.X).(*SliceV)
		n := int(x.Type().(*types.Pointer).Elem().Underlying().(*types.Array).Len())
		if in.branch(Slt(s.len_, intT(int64(n)))) {
			in.goPanic(in.runtimeError("cannot convert slice to array pointer: length too short", "slice"))
		}
		if s.arr == nil {
			fr.set(x, (*Cell)(nil))
		} else if s.off == 0 && len(s.arr.kids) == n {
			fr.set(x, s.arr)
		} else {
			// view cell sharing the element cells
			c := in.newCell(x.Type().(*types.Pointer).Elem())
			c.kids = s.arr.kids[s.off : s.off+n]
			fr.set(x, c)
		}
	case *ssa.MakeInterface:
		fr.set(x, &IfaceV{t: x.X.Type(), v: fr.get(x.X)})
	case *ssa.Extract:
		fr.set(x, fr.get(x.Tuple).([]Value)[x.Index])
	case *ssa.Slice:
		fr.set(x, in.sliceOp(fr, x))
	case *ssa.Return:
		switch len(x.Results) {
		case 0:
		case 1:
			fr.result = fr.get(x.Results[0])
		default:
			res := make([]Value, len(x.Results))
			for i, r := range x.Results {
				res[i] = fr.get(r)
			}
			fr.result = res
		}
		return kReturn
	case *ssa.RunDefers:
		fr.runDefers()
		if fr.panicking {
			panic(fr.panicVal)
		}
	case *ssa.Panic:
		v := fr.get(x.X)
		in.goPanic(&goPanic{val: v, kind: "user", msg: in.panicMessage(v)})
	case *ssa.Send:
		in.chanSend(fr, fr.get(x.Chan).(*ChanV), fr.get(x.X))
	case *ssa.Store:
		p := fr.get(x.Addr)
		in.storeThrough(p, fr.get(x.Val))
	case *ssa.If:
		c := in.simp(fr.get(x.Cond).(*Term))
		if !c.IsConst() && in.tryIfConvert(fr, x, c) {
			return kJump
		}
		// or-chain (switch with several values per case, a || b || ...): the else
		// block only compares and branches to the same target: one decision on the
		// disjunction instead of one fork per alternative
		if !c.IsConst() {
			if c2, last, ok := in.orChain(fr, x, c); ok {
				if in.branch(c2) {
					// which alternative held does not matter to the target (no phi
					// distinguishes the chain's edges): enter it from the last block
					fr.prev, fr.block = last, fr.block.Succs[0]
				} else {
					fr.prev, fr.block = last, last.Succs[1]
				}
				return kJump
			}
		}
		succ := 1
		if in.branch(c) {
			succ = 0
		}
		fr.prev, fr.block = fr.block, fr.block.Succs[succ]
		return kJump
	case *ssa.Jump:
		fr.prev, fr.block = fr.block, fr.block.Succs[0]
		return kJump
	case *ssa.Defer:
		fv, args := in.prepareCall(fr, &x.Call)
		d := &deferred{fn: fv, args: args, pos: x.Pos()}
		if x.Call.Method != nil {
			d.call = &x.Call
		}
		fr.defers = append(fr.defers, d)
	case *ssa.Go:
		fv, args := in.prepareCall(fr, &x.Call)
		in.spawn(fr, x, fv, args)
	case *ssa.MakeChan:
		n := in.concInt(fr.get(x.Size).(*Term), "chan size")
		fr.set(x, in.newChan(int(n), x.Type().Underlying().(*types.Chan).Elem()))
	case *ssa.Alloc:
		t := x.Type().(*types.Pointer).Elem()
		c := in.alloc(t)
		fr.set(x, c)
	case *ssa.MakeSlice:
		ln := fr.get(x.Len).(*Term)
		cp := fr.get(x.Cap).(*Term)
		ln, cp = Resize(ln, 64, true), Resize(cp, 64, true)
		in.noteAlloc(cp)
		if in.branch(BOr(Slt(ln, intT(0)), Slt(cp, ln))) {
			in.goPanic(in.runtimeError("makeslice: len out of range", "slice"))
		}
		n := int(in.concInt(cp, "make size"))
		l := int(in.concInt(ln, "make len"))
		fr.set(x, in.mkSlice(x.Type().Underlying().(*types.Slice).Elem(), l, n))
	case *ssa.MakeMap:
		mt := x.Type().Underlying().(*types.Map)
		fr.set(x, in.newMap(mt.Key(), mt.Elem()))
	case *ssa.Range:
		fr.set(x, in.rangeIter(fr.get(x.X), x.X.Type()))
	case *ssa.Next:
		fr.set(x, in.next(fr, x, fr.get(x.Iter).(*iterV)))
	case *ssa.FieldAddr:
		p := in.derefCheck(fr.get(x.X))
		fr.set(x, p.kids[x.Field])
	case *ssa.Field:
		fr.set(x, fr.get(x.X).(*AggV).f[x.Field])
	case *ssa.IndexAddr:
		fr.set(x, in.indexAddr(fr, x))
	case *ssa.Index:
		fr.set(x, in.indexOp(fr, x))
	case *ssa.Lookup:
		fr.set(x, in.lookup(fr, x))
	case *ssa.MapUpdate:
		m := fr.get(x.Map).(*MapV)
		if m == nil {
			in.goPanic(&goPanic{kind: "nilmap", msg: "assignment to entry in nil map"})
		}
		in.mapSet(m, fr.get(x.Key), fr.get(x.Value))
	case *ssa.TypeAssert:
		fr.set(x, in.typeAssert(fr, x))
	case *ssa.MakeClosure:
		free := make([]Value, len(x.Bindings))
		for i, b := range x.Bindings {
			free[i] = fr.get(b)
		}
		in.funcSeq++
		fr.set(x, &FuncV{fn: x.Fn.(*ssa.Function), free: free, id: in.funcSeq})
	case *ssa.Phi:
		if fr.phiCond != nil {
			var tv, fv Value
			for i, pred := range x.Block().Preds {
				if pred == fr.phiT {
					tv = fr.get(x.Edges[i])
				}
				if pred == fr.phiF {
					fv = fr.get(x.Edges[i])
				}
			}
			tt, ok1 := tv.(*Term)
			ft, ok2 := fv.(*Term)
			if ok1 && ok2 {
				fr.set(x, Ite(fr.phiCond, tt, ft))
			} else {
				fr.set(x, tv) // identical by construction (checked in tryIfConvert)
			}
			break
		}
		for i, pred := range x.Block().Preds {
			if fr.prev == pred {
				fr.set(x, fr.get(x.Edges[i]))
				break
			}
		}
	case *ssa.Select:
		fr.set(x, in.selectOp(fr, x))
	default:
		panic(fmt.Sprintf("unexpected instruction: %T", instr))
	}
	return kNext
}

// pureArm reports whether block b consists only of side-effect free,
// non-panicking scalar instructions followed by a jump to join.
func pureArm(b, join *ssa.BasicBlock) bool {
	if len(b.Succs) != 1 || b.Succs[0] != join || len(b.Preds) != 1 {
		return false
	}
	for _, ins := range b.Instrs[:len(b.Instrs)-1] {
		switch x := ins.(type) {
		case *ssa.DebugRef:
		case *ssa.BinOp:
			switch x.Op {
			case token.QUO, token.REM, token.SHL, token.SHR:
				return false
			}
			if _, ok := x.X.Type().Underlying().(*types.Basic); !ok {
				return false
			}
			if b, ok := x.X.Type().Underlying().(*types.Basic); ok && b.Info()&(types.IsString|types.IsFloat|types.IsComplex) != 0 {
				return false
			}
		case *ssa.UnOp:
			if x.Op == token.MUL || x.Op == token.ARROW {
				return false
			}
		case *ssa.Convert:
			if _, ok := x.Type().Underlying().(*types.Basic); !ok {
				return false
			}
			if b := x.Type().Underlying().(*types.Basic); b.Info()&(types.IsInteger|types.IsBoolean) == 0 {
				return false
			}
			if b, ok := x.X.Type().Underlying().(*types.Basic); !ok || b.Info()&(types.IsInteger|types.IsBoolean) == 0 {
				return false
			}
		case *ssa.ChangeType:
		default:
			return false
		}
	}
	_, ok := b.Instrs[len(b.Instrs)-1].(*ssa.Jump)
	return ok
}

// tryIfConvert executes a triangle/diamond whose arms are pure as ite-phis
// instead of forking the path.
func (in *Interp) tryIfConvert(fr *frame, x *ssa.If, c *Term) bool {
	cur := fr.block
	t, f := cur.Succs[0], cur.Succs[1]
	var join *ssa.BasicBlock
	var armT, armF *ssa.BasicBlock // nil: edge goes directly to join
	switch {
	case t != f && pureArm(t, f):
		join, armT = f, t
	case t != f && pureArm(f, t):
		join, armF = t, f
	case len(t.Succs) == 1 && len(f.Succs) == 1 && t.Succs[0] == f.Succs[0] && pureArm(t, t.Succs[0]) && pureArm(f, f.Succs[0]):
		join, armT, armF = t.Succs[0], t, f
	default:
		return false
	}
	if len(join.Preds) != 2 {
		return false
	}
	run := func(b *ssa.BasicBlock) {
		if b == nil {
			return
		}
		fr.block = b
		for _, ins := range b.Instrs[:len(b.Instrs)-1] {
			in.visit(fr, ins)
		}
	}
	run(armT)
	run(armF)
	predT, predF := cur, cur
	if armT != nil {
		predT = armT
	}
	if armF != nil {
		predF = armF
	}
	// all phis must merge scalars (or identical values)
	for _, ins := range join.Instrs {
		phi, ok := ins.(*ssa.Phi)
		if !ok {
			break
		}
		var tv, fv Value
		for i, pred := range join.Preds {
			if pred == predT {
				tv = fr.get(phi.Edges[i])
			}
			if pred == predF {
				fv = fr.get(phi.Edges[i])
			}
		}
		_, ok1 := tv.(*Term)
		_, ok2 := fv.(*Term)
		if !(ok1 && ok2) {
			fr.block = cur
			return false
		}
	}
	fr.phiCond, fr.phiT, fr.phiF = c, predT, predF
	fr.prev, fr.block = cur, join
	return true
}

func (in *Interp) panicMessage(v Value) string {
	iv, _ := v.(*IfaceV)
	if iv == nil {
		return "panic(nil)"
	}
	switch x := iv.v.(type) {
	case *StrV:
		return "panic: " + x.String()
	}
	return "panic: value of type " + iv.t.String()
}

func (in *Interp) derefCheck(p Value) *Cell {
	switch c := p.(type) {
	case *Cell:
		if c == nil {
			in.goPanic(in.runtimeError("invalid memory address or nil pointer dereference", "nil"))
		}
		return c
	}
	panic(fmt.Sprintf("derefCheck: %T", p))
}

// SymPtr is the address of an array element with a symbolic (in-bounds) index.
type SymPtr struct {
	elems []*Cell
	idx   *Term
}

func (in *Interp) loadThrough(p Value) Value {
	switch c := p.(type) {
	case *Cell:
		if c == nil {
			in.goPanic(in.runtimeError("invalid memory address or nil pointer dereference", "nil"))
		}
		return in.load(c)
	case *SymPtr:
		return in.symLoad(c)
	}
	panic(fmt.Sprintf("loadThrough: %T", p))
}

func (in *Interp) symLoad(sp *SymPtr) Value {
	// ite chain over elements (scalar elements only)
	var res *Term
	w := sp.idx.Width()
	for i := len(sp.elems) - 1; i >= 0; i-- {
		v, ok := sp.elems[i].v.(*Term)
		if !ok {
			i := int(in.concInt(sp.idx, "symbolic index of non-scalar element"))
			return in.load(sp.elems[i])
		}
		if res == nil {
			res = v
		} else {
			res = Ite(Eq(sp.idx, Const(w, uint64(i))), v, res)
		}
	}
	return res
}

func (in *Interp) storeThrough(p Value, v Value) {
	switch c := p.(type) {
	case *Cell:
		if c == nil {
			in.goPanic(in.runtimeError("invalid memory address or nil pointer dereference", "nil"))
		}
		in.store(c, v)
		return
	case *SymPtr:
		nv, ok := v.(*Term)
		if ok {
			allScalar := true
			for _, e := range c.elems {
				if _, ok := e.v.(*Term); !ok {
					allScalar = false
				}
			}
			if allScalar && len(c.elems) <= 64 {
				w := c.idx.Width()
				if in.watch != nil && len(c.elems) > 0 && c.elems[0].par != nil && in.watch[c.elems[0].par] {
					// one mutation query for the whole symbolic store
					diff := TT.False
					for _, e := range c.elems {
						diff = BOr(diff, BNot(Eq(e.v.(*Term), nv)))
					}
					in.watchQuery(c.elems[0], diff)
				}
				saveW := in.watch
				in.watch = nil
				for i, e := range c.elems {
					in.set(e, Ite(Eq(c.idx, Const(w, uint64(i))), nv, e.v.(*Term)))
				}
				in.watch = saveW
				return
			}
		}
		i := int(in.concInt(c.idx, "symbolic store index"))
		in.store(c.elems[i], v)
		return
	}
	panic(fmt.Sprintf("storeThrough: %T", p))
}

func (in *Interp) unop(fr *frame, x *ssa.UnOp) Value {
	v := fr.get(x.X)
	switch x.Op {
	case token.MUL:
		return in.loadThrough(v)
	case token.NOT:
		return BNot(v.(*Term))
	case token.SUB:
		switch a := v.(type) {
		case *Term:
			return Neg(a)
		case float64:
			return -a
		}
	case token.XOR:
		return Not(v.(*Term))
	case token.ARROW:
		val, ok := in.chanRecv(fr, v.(*ChanV))
		if x.CommaOk {
			return []Value{val, BoolT(ok)}
		}
		return val
	}
	panic(fmt.Sprintf("unop %s on %T", x.Op, v))
}

func (in *Interp) binop(op token.Token, xt types.Type, x, y Value, yt types.Type) Value {
	switch a := x.(type) {
	case *Term:
		b, ok := y.(*Term)
		if !ok {
			break
		}
		if a.IsBool() {
			switch op {
			case token.EQL:
				return Eq(a, b)
			case token.NEQ:
				return BNot(Eq(a, b))
			case token.AND, token.LAND:
				return BAnd(a, b)
			case token.OR, token.LOR:
				return BOr(a, b)
			}
			break
		}
		signed := isSigned(xt)
		switch op {
		case token.ADD:
			return Add(a, b)
		case token.SUB:
			return Sub(a, b)
		case token.MUL:
			return Mul(a, b)
		case token.QUO, token.REM:
			if in.branch(Eq(b, Const(b.Width(), 0))) {
				in.goPanic(in.runtimeError("integer divide by zero", "divide"))
			}
			if op == token.QUO {
				if signed {
					return SDiv(a, b)
				}
				return UDiv(a, b)
			}
			if signed {
				return SRem(a, b)
			}
			return URem(a, b)
		case token.AND:
			return And(a, b)
		case token.OR:
			return Or(a, b)
		case token.XOR:
			return Xor(a, b)
		case token.AND_NOT:
			return And(a, Not(b))
		case token.SHL, token.SHR:
			if isSigned(yt) && !(b.IsConst() && b.Int() >= 0) {
				if in.branch(Slt(b, Const(b.Width(), 0))) {
					in.goPanic(in.runtimeError("negative shift amount", "shift"))
				}
			}
			w := a.Width()
			var s *Term
			var big *Term // shift >= width
			if b.Width() > w {
				big = BNot(Ult(b, Const(b.Width(), uint64(w))))
				s = Extract(b, w-1, 0)
			} else {
				s = ZExt(b, w)
				big = BNot(Ult(s, Const(w, uint64(w))))
			}
			switch {
			case op == token.SHL:
				return Ite(big, Const(w, 0), Shl(a, s))
			case signed:
				return Ite(big, AShr(a, Const(w, uint64(w-1))), AShr(a, s))
			default:
				return Ite(big, Const(w, 0), LShr(a, s))
			}
		case token.EQL:
			return Eq(a, b)
		case token.NEQ:
			return BNot(Eq(a, b))
		case token.LSS:
			if signed {
				return Slt(a, b)
			}
			return Ult(a, b)
		case token.LEQ:
			if signed {
				return Sle(a, b)
			}
			return Ule(a, b)
		case token.GTR:
			if signed {
				return Slt(b, a)
			}
			return Ult(b, a)
		case token.GEQ:
			if signed {
				return Sle(b, a)
			}
			return Ule(b, a)
		}
	case *StrV:
		b := y.(*StrV)
		switch op {
		case token.ADD:
			if a.opaque != "" || b.opaque != "" {
				return in.opaqueStr("concat")
			}
			return &StrV{b: append(append([]*Term{}, a.b...), b.b...)}
		case token.EQL:
			return in.equalTerm(a, b)
		case token.NEQ:
			return BNot(in.equalTerm(a, b))
		case token.LSS:
			return in.strLess(a, b)
		case token.GTR:
			return in.strLess(b, a)
		case token.LEQ:
			return BNot(in.strLess(b, a))
		case token.GEQ:
			return BNot(in.strLess(a, b))
		}
	case float64:
		b := y.(float64)
		switch op {
		case token.ADD:
			return a + b
		case token.SUB:
			return a - b
		case token.MUL:
			return a * b
		case token.QUO:
			return a / b
		case token.EQL:
			return BoolT(a == b)
		case token.NEQ:
			return BoolT(a != b)
		case token.LSS:
			return BoolT(a < b)
		case token.LEQ:
			return BoolT(a <= b)
		case token.GTR:
			return BoolT(a > b)
		case token.GEQ:
			return BoolT(a >= b)
		}
	case *FloatV:
		return in.floatBinop(op, a, y)
	}
	if fv, ok := y.(*FloatV); ok {
		return in.floatBinop(op, x, fv)
	}
	switch op {
	case token.EQL:
		return in.equalTerm(x, y)
	case token.NEQ:
		return BNot(in.equalTerm(x, y))
	}
	panic(fmt.Sprintf("binop %s on %T, %T", op, x, y))
}

func (in *Interp) strLess(a, b *StrV) *Term {
	if a.opaque != "" || b.opaque != "" {
		in.unsupported("ordering of opaque strings")
	}
	n := min(len(a.b), len(b.b))
	res := BoolT(len(a.b) < len(b.b))
	for i := n - 1; i >= 0; i-- {
		res = Ite(Eq(a.b[i], b.b[i]), res, Ult(a.b[i], b.b[i]))
	}
	return res
}

func (in *Interp) opaqueStr(what string) *StrV {
	in.opaqueSeq++
	return &StrV{opaque: fmt.Sprintf("%s#%d", what, in.opaqueSeq)}
}

func (in *Interp) convert(src, dst types.Type, v Value) Value {
	us, ud := src.Underlying(), dst.Underlying()
	switch d := ud.(type) {
	case *types.Basic:
		switch {
		case d.Info()&types.IsInteger != 0:
			switch a := v.(type) {
			case *Term:
				return Resize(a, basicWidth(d), isSigned(src))
			case float64:
				if d.Info()&types.IsUnsigned != 0 {
					return Const(basicWidth(d), uint64(a))
				}
				return Const(basicWidth(d), uint64(int64(a)))
			case *FloatV:
				return in.floatToInt(a, basicWidth(d))
			case *Cell: // unsafe.Pointer -> uintptr
				if a == nil {
					return Const(64, 0)
				}
				in.unsupported("pointer to integer conversion")
			}
		case d.Info()&types.IsFloat != 0:
			switch a := v.(type) {
			case *Term:
				if a.IsConst() {
					if isSigned(src) {
						return float64(a.Int())
					}
					return float64(a.Uint())
				}
				return &FloatV{num: Resize(a, 64, isSigned(src)), sym: true}
			case float64:
				if d.Kind() == types.Float32 {
					return float64(float32(a))
				}
				return a
			case *FloatV:
				return a
			}
		case d.Info()&types.IsString != 0:
			switch a := v.(type) {
			case *StrV:
				return a
			case *Term: // string(rune)
				if !a.IsConst() {
					in.unsupported("string(rune) of symbolic value")
				}
				return mkStr(string(rune(a.Int())))
			case *SliceV:
				if sl, ok := us.(*types.Slice); ok {
					if b, ok := sl.Elem().Underlying().(*types.Basic); ok && b.Kind() == types.Int32 {
						in.unsupported("string([]rune)")
					}
				}
				if a.arr == nil {
					return in.emptyStr
				}
				return &StrV{b: in.sliceBytes(a)}
			}
		case d.Kind() == types.UnsafePointer:
			return v
		}
	case *types.Slice:
		if s, ok := v.(*StrV); ok {
			if s.opaque != "" {
				in.unsupported("[]byte of opaque string")
			}
			if b, ok := d.Elem().Underlying().(*types.Basic); ok && b.Kind() == types.Int32 {
				str, ok := s.concrete()
				if !ok {
					in.unsupported("[]rune of symbolic string")
				}
				rs := []rune(str)
				sl := in.mkSlice(d.Elem(), len(rs), len(rs))
				for i, r := range rs {
					sl.arr.kids[i].v = Const(32, uint64(r))
				}
				return sl
			}
			return in.bytesToSlice(s.b)
		}
		return v
	case *types.Pointer:
		return v
	}
	panic(fmt.Sprintf("convert %s -> %s (%T)", src, dst, v))
}

func (in *Interp) typeAssert(fr *frame, x *ssa.TypeAssert) Value {
	v, _ := fr.get(x.X).(*IfaceV)
	ok := false
	var res Value
	if v != nil {
		if it, isI := x.AssertedType.Underlying().(*types.Interface); isI {
			if in.implements(v, it) {
				ok = true
				res = v
			}
		} else if types.Identical(v.t, x.AssertedType) {
			ok = true
			res = v.v
		}
	}
	if x.CommaOk {
		if !ok {
			res = in.zero(x.AssertedType)
		}
		return []Value{res, BoolT(ok)}
	}
	if !ok {
		dyn := "nil"
		if v != nil {
			dyn = v.t.String()
		}
		in.goPanic(&goPanic{kind: "assert", msg: fmt.Sprintf("interface conversion: interface is %s, not %s", dyn, x.AssertedType)})
	}
	return res
}

func (in *Interp) implements(v *IfaceV, it *types.Interface) bool {
	if it.NumMethods() == 0 {
		return true
	}
	if _, ok := v.v.(*RType); ok {
		return true // model object: only asserted to reflect.Type
	}
	return types.Implements(v.t, it)
}

func (in *Interp) indexAddr(fr *frame, x *ssa.IndexAddr) Value {
	base := fr.get(x.X)
	idx := Resize(fr.get(x.Index).(*Term), 64, isSigned(x.Index.Type()))
	var elems []*Cell
	var n *Term
	switch b := base.(type) {
	case *Cell: // pointer to array
		b = in.derefCheck(b)
		elems = b.kids
		n = intT(int64(len(elems)))
	case *SliceV:
		n = b.len_
		if b.arr != nil {
			elems = b.arr.kids[b.off:]
		}
	default:
		panic(fmt.Sprintf("indexAddr on %T", base))
	}
	if in.branch(BNot(Ult(idx, n))) {
		in.goPanic(in.runtimeError(fmt.Sprintf("index out of range [%s] with length %s", in.show(idx), in.show(n)), "index"))
	}
	if idx.IsConst() {
		return elems[idx.Uint()]
	}
	ln := int(in.concInt(n, "length for symbolic index"))
	if sv, ok := base.(*SliceV); ok && !sv.len_.IsConst() {
		sv.len_ = intT(int64(ln))
	}
	return &SymPtr{elems: elems[:ln], idx: idx}
}

func (in *Interp) indexOp(fr *frame, x *ssa.Index) Value {
	idx := Resize(fr.get(x.Index).(*Term), 64, isSigned(x.Index.Type()))
	switch b := fr.get(x.X).(type) {
	case *AggV:
		if in.branch(BNot(Ult(idx, intT(int64(len(b.f)))))) {
			in.goPanic(in.runtimeError("index out of range", "index"))
		}
		if idx.IsConst() {
			return b.f[idx.Uint()]
		}
		var res *Term
		for i := len(b.f) - 1; i >= 0; i-- {
			t, ok := b.f[i].(*Term)
			if !ok {
				return b.f[in.concInt(idx, "index")]
			}
			if res == nil {
				res = t
			} else {
				res = Ite(Eq(idx, intT(int64(i))), t, res)
			}
		}
		return res
	case *StrV:
		return in.strIndex(b, idx)
	}
	panic("indexOp")
}

func (in *Interp) strIndex(s *StrV, idx *Term) Value {
	if s.opaque != "" {
		in.unsupported("index of opaque string")
	}
	if in.branch(BNot(Ult(idx, intT(int64(len(s.b)))))) {
		in.goPanic(in.runtimeError(fmt.Sprintf("index out of range [%s] with length %d", in.show(idx), len(s.b)), "index"))
	}
	if idx.IsConst() {
		return s.b[idx.Uint()]
	}
	res := s.b[len(s.b)-1]
	for i := len(s.b) - 2; i >= 0; i-- {
		res = Ite(Eq(idx, intT(int64(i))), s.b[i], res)
	}
	return res
}

func (in *Interp) lookup(fr *frame, x *ssa.Lookup) Value {
	switch m := fr.get(x.X).(type) {
	case *StrV:
		idx := Resize(fr.get(x.Index).(*Term), 64, isSigned(x.Index.Type()))
		return in.strIndex(m, idx)
	case *MapV:
		v, ok := in.mapGet(m, fr.get(x.Index))
		if !ok {
			v = in.zero(x.X.Type().Underlying().(*types.Map).Elem())
		}
		if x.CommaOk {
			return []Value{v, BoolT(ok)}
		}
		return v
	}
	panic("lookup")
}

func (in *Interp) sliceOp(fr *frame, x *ssa.Slice) Value {
	base := fr.get(x.X)
	var lo, hi, max *Term
	get := func(v ssa.Value) *Term {
		if v == nil {
			return nil
		}
		return Resize(fr.get(v).(*Term), 64, isSigned(v.Type()))
	}
	lo, hi, max = get(x.Low), get(x.High), get(x.Max)
	if lo == nil {
		lo = intT(0)
	}
	switch b := base.(type) {
	case *StrV:
		if b.opaque != "" {
			in.unsupported("slice of opaque string")
		}
		n := intT(int64(len(b.b)))
		if hi == nil {
			hi = n
		}
		if in.branch(BOr(Ult(n, hi), Ult(hi, lo))) {
			in.goPanic(in.runtimeError(fmt.Sprintf("slice bounds out of range [%s:%s] with length %d", in.show(lo), in.show(hi), len(b.b)), "slice"))
		}
		l, h := in.concInt(lo, "string slice low"), in.concInt(hi, "string slice high")
		return &StrV{b: b.b[l:h]}
	case *Cell: // *array
		b = in.derefCheck(b)
		n := intT(int64(len(b.kids)))
		return in.reslice(b, 0, n, n, lo, hi, max)
	case *SliceV:
		return in.reslice(b.arr, b.off, b.len_, b.cap_, lo, hi, max)
	}
	panic(fmt.Sprintf("sliceOp on %T", base))
}

func (in *Interp) reslice(arr *Cell, off int, ln, cp, lo, hi, max *Term) Value {
	if hi == nil {
		hi = ln
	}
	if max == nil {
		max = cp
	}
	// 0 <= lo <= hi <= max <= cap
	bad := BOr(BOr(Ult(cp, max), Ult(max, hi)), Ult(hi, lo))
	if in.branch(bad) {
		in.goPanic(in.runtimeError(fmt.Sprintf("slice bounds out of range [%s:%s] with capacity %s", in.show(lo), in.show(hi), in.show(cp)), "slice"))
	}
	l := int(in.concInt(lo, "slice low bound"))
	if arr == nil {
		return &SliceV{len_: intT(0), cap_: intT(0)}
	}
	return &SliceV{arr: arr, off: off + l, len_: Sub(hi, intT(int64(l))), cap_: Sub(max, intT(int64(l)))}
}

const maxAllocElems = 1 << 22

// noteAlloc records an allocation request of n elements. If the harness has
// set an allocation limit, "n can exceed the limit" is decided by the solver
// right here (before the executor would have to materialise the object); the
// executor itself refuses objects above maxAllocElems.
func (in *Interp) noteAlloc(n *Term) {
	in.allocs = append(in.allocs, n)
	n = in.simp(Resize(n, 64, true))
	if in.allocLimit != nil && in.run != nil {
		over := Slt(in.allocLimit, n)
		if !over.IsFalse() {
			r, m := in.checkSat(over, true)
			if r == Sat {
				where := ""
				if in.cur != nil {
					where = in.cur.fn.String() + " @ " + in.fset.Position(in.cur.pos).String()
				}
				in.violation("assert", in.allocLimitName, fmt.Sprintf("allocation of %s elements can exceed the limit %s at %s", in.show(n), in.show(in.allocLimit), where), m, nil)
			} else if r == Unknown {
				in.run.unknown++
			}
			in.assume(BNot(over))
		}
	}
	if n.IsConst() {
		if n.Int() > maxAllocElems {
			in.unsupported("allocation of %d elements exceeds what the executor materialises", n.Int())
		}
		return
	}
	if in.branch(Slt(intT(maxAllocElems), n)) {
		in.unsupported("allocation of more than %d elements (symbolic size)", maxAllocElems)
	}
}

// ---------------------------------------------------------------------------
// iteration

type iterV struct {
	str  *StrV
	pos  int
	ents []*mapEnt
	m    *MapV
}

func (in *Interp) rangeIter(v Value, t types.Type) Value {
	switch x := v.(type) {
	case *StrV:
		if x.opaque != "" {
			in.unsupported("range over opaque string")
		}
		return &iterV{str: x}
	case *MapV:
		if x == nil {
			return &iterV{}
		}
		return &iterV{ents: x.sorted(), m: x}
	}
	panic("rangeIter")
}

func (in *Interp) next(fr *frame, x *ssa.Next, it *iterV) Value {
	if x.IsString {
		if it.pos >= len(it.str.b) {
			return []Value{TT.False, intT(0), Const(32, 0)}
		}
		pos := it.pos
		b0 := it.str.b[pos]
		if b0.IsConst() && b0.val < 0x80 {
			it.pos++
			return []Value{TT.True, intT(int64(pos)), Const(32, b0.val)}
		}
		fn := in.stdFunc("unicode/utf8", "DecodeRuneInString")
		r := in.callSSA(fr, x.Pos(), fn, []Value{&StrV{b: it.str.b[pos:]}}, nil).([]Value)
		sz := in.concInt(r[1].(*Term), "rune size")
		it.pos += int(sz)
		return []Value{TT.True, intT(int64(pos)), r[0]}
	}
	for it.pos < len(it.ents) {
		e := it.ents[it.pos]
		it.pos++
		// skip entries deleted during iteration
		ks, _ := in.keyString(e.k)
		if cur, ok := it.m.m[ks]; ok {
			return []Value{TT.True, cur.k, cur.v}
		}
	}
	mt := x.Iter.(*ssa.Range).X.Type().Underlying().(*types.Map)
	return []Value{TT.False, in.zero(mt.Key()), in.zero(mt.Elem())}
}

func (in *Interp) stdFunc(pkg, name string) *ssa.Function {
	p := in.prog.ImportedPackage(pkg)
	if p == nil {
		panic("package not loaded: " + pkg)
	}
	f := p.Func(name)
	if f == nil {
		panic("no function " + pkg + "." + name)
	}
	return f
}

// ---------------------------------------------------------------------------
// builtins

func (in *Interp) callBuiltin(fr *frame, b *ssa.Builtin, args []Value) Value {
	switch b.Name() {
	case "len":
		switch x := args[0].(type) {
		case *StrV:
			if x.opaque != "" {
				in.unsupported("len of opaque string")
			}
			return intT(int64(len(x.b)))
		case *SliceV:
			return x.len_
		case *MapV:
			if x == nil {
				return intT(0)
			}
			return intT(int64(len(x.m)))
		case *ChanV:
			if x == nil {
				return intT(0)
			}
			return intT(int64(len(x.buf)))
		case *AggV:
			return intT(int64(len(x.f)))
		case *Cell:
			return intT(int64(len(x.kids)))
		}
	case "cap":
		switch x := args[0].(type) {
		case *SliceV:
			return x.cap_
		case *ChanV:
			if x == nil {
				return intT(0)
			}
			return intT(int64(x.cap))
		case *AggV:
			return intT(int64(len(x.f)))
		case *Cell:
			return intT(int64(len(x.kids)))
		}
	case "append":
		return in.appendOp(args[0].(*SliceV), args[1], b.Type().(*types.Signature).Params().At(0).Type())
	case "copy":
		return in.copyOp(args[0].(*SliceV), args[1])
	case "delete":
		if m := args[0].(*MapV); m != nil {
			in.mapDelete(m, args[1])
		}
		return nil
	case "clear":
		switch x := args[0].(type) {
		case *MapV:
			if x != nil {
				for _, e := range x.sorted() {
					in.mapDelete(x, e.k)
				}
			}
		case *SliceV:
			n := in.sliceLen(x)
			for i := 0; i < n; i++ {
				c := in.sliceElem(x, i)
				in.store(c, in.zero(c.t))
			}
		}
		return nil
	case "print", "println":
		return nil
	case "recover":
		// recover() is effective only when called directly by a deferred function
		// whose caller is panicking.
		c := fr.caller
		if c != nil && c.panicking {
			c.panicking = false
			p := c.panicVal
			if p.val == nil {
				// runtime error: wrap as runtime.Error-like value
				return in.runtimeErrorValue(p)
			}
			return p.val
		}
		return (*IfaceV)(nil)
	case "close":
		in.chanClose(fr, args[0].(*ChanV))
		return nil
	case "min", "max":
		sig := b.Type().(*types.Signature)
		t := sig.Params().At(0).Type()
		res := args[0]
		for _, a := range args[1:] {
			var less *Term
			switch x := res.(type) {
			case *Term:
				if isSigned(t) {
					less = Slt(a.(*Term), x)
				} else {
					less = Ult(a.(*Term), x)
				}
				// less: a < res
				if b.Name() == "max" {
					res = Ite(less, x, a.(*Term))
				} else {
					res = Ite(less, a.(*Term), x)
				}
			default:
				in.unsupported("min/max on %T", res)
			}
		}
		return res
	case "ssa:wrapnilchk":
		if c, ok := args[0].(*Cell); ok && c == nil {
			in.goPanic(in.runtimeError("value method called using nil pointer", "nil"))
		}
		return args[0]
	case "String": // unsafe.String(ptr, len)
		p := args[0].(*Cell)
		n := int(in.concInt(Resize(args[1].(*Term), 64, true), "unsafe.String len"))
		if n == 0 {
			return in.emptyStr
		}
		arr := p.par
		bs := make([]*Term, n)
		for i := 0; i < n; i++ {
			bs[i] = arr.kids[p.idx+i].v.(*Term)
		}
		return &StrV{b: bs}
	case "SliceData":
		s := args[0].(*SliceV)
		if s.arr == nil || s.off >= len(s.arr.kids) {
			return (*Cell)(nil)
		}
		return s.arr.kids[s.off]
	case "StringData":
		s := args[0].(*StrV)
		if len(s.b) == 0 {
			return (*Cell)(nil)
		}
		sl := in.bytesToSlice(s.b)
		return sl.arr.kids[0]
	case "Slice": // unsafe.Slice(ptr, len)
		p := args[0].(*Cell)
		n := in.concInt(Resize(args[1].(*Term), 64, true), "unsafe.Slice len")
		if p == nil {
			return &SliceV{len_: intT(0), cap_: intT(0)}
		}
		return &SliceV{arr: p.par, off: p.idx, len_: intT(n), cap_: intT(n)}
	}
	in.unsupported("builtin %s on %T", b.Name(), args[0])
	return nil
}

func (in *Interp) runtimeErrorValue(p *goPanic) Value {
	// a runtime.Error: modelled as *errors.errorString carrying the message;
	// type assertions to `error` succeed.
	return in.mkError(p.msg)
}

func (in *Interp) appendOp(s *SliceV, more Value, st types.Type) Value {
	var add []Value
	switch m := more.(type) {
	case *StrV:
		if m.opaque != "" {
			in.unsupported("append of opaque string")
		}
		for _, b := range m.b {
			add = append(add, b)
		}
	case *SliceV:
		add = in.sliceValues(m)
	}
	if len(add) == 0 {
		return s
	}
	elem := st.Underlying().(*types.Slice).Elem()
	n := in.sliceLen(s)
	newLen := n + len(add)
	fits := Sle(intT(int64(newLen)), s.cap_)
	if s.arr != nil && in.branch(fits) {
		for i, v := range add {
			in.store(s.arr.kids[s.off+n+i], v)
		}
		return &SliceV{arr: s.arr, off: s.off, len_: intT(int64(newLen)), cap_: s.cap_}
	}
	c := 0
	if s.arr != nil {
		c = int(in.concInt(s.cap_, "append cap"))
	}
	nc := 2 * c
	if nc < newLen {
		nc = newLen
	}
	if nc < 8 && intWidth(elem) == 8 {
		nc = 8
	}
	in.noteAlloc(intT(int64(nc)))
	ns := in.mkSlice(elem, newLen, nc)
	for i := 0; i < n; i++ {
		in.store(ns.arr.kids[i], in.load(in.sliceElem(s, i)))
	}
	for i, v := range add {
		in.store(ns.arr.kids[n+i], v)
	}
	return ns
}

func (in *Interp) copyOp(dst *SliceV, src Value) Value {
	var vals []Value
	var srcLen *Term
	switch s := src.(type) {
	case *StrV:
		if s.opaque != "" {
			in.unsupported("copy of opaque string")
		}
		srcLen = intT(int64(len(s.b)))
	case *SliceV:
		srcLen = s.len_
	}
	n := Ite(Slt(dst.len_, srcLen), dst.len_, srcLen)
	cn := int(in.concInt(n, "copy length"))
	switch s := src.(type) {
	case *StrV:
		for i := 0; i < cn; i++ {
			vals = append(vals, s.b[i])
		}
	case *SliceV:
		for i := 0; i < cn; i++ {
			vals = append(vals, in.load(in.sliceElem(s, i)))
		}
	}
	for i := 0; i < cn; i++ {
		in.store(in.sliceElem(dst, i), vals[i])
	}
	return intT(int64(cn))
}

// ---------------------------------------------------------------------------
// package initialisation

func (in *Interp) globalValue(g *ssa.Global) Value {
	c := in.global(g)
	return c
}

func (in *Interp) initPackage(p *ssa.Package) {
	if in.inited[p] {
		return
	}
	in.inited[p] = true
	init := p.Func("init")
	if init == nil || init.Blocks == nil {
		return
	}
	if os.Getenv("GOSYM_TRACE_INIT") != "" {
		fmt.Fprintln(os.Stderr, "init", p.Pkg.Path())
	}
	in.callSSA(nil, token.NoPos, init, nil, nil)
}

func pkgPathOf(fn *ssa.Function) string {
	if fn.Pkg != nil {
		return fn.Pkg.Pkg.Path()
	}
	if o := fn.Origin(); o != nil && o.Pkg != nil {
		return o.Pkg.Pkg.Path()
	}
	if fn.Parent() != nil {
		return pkgPathOf(fn.Parent())
	}
	return ""
}

func shortPos(fset *token.FileSet, p token.Pos) string {
	pos := fset.Position(p)
	f := pos.Filename
	if i := strings.LastIndex(f, "/"); i >= 0 {
		f = f[i+1:]
	}
	return fmt.Sprintf("%s:%d", f, pos.Line)
}
