package main

// Stubs for the cryptographic libraries (DESIGN.md §3.4): uninterpreted total
// functions. Marshal/parse pairs are inverse by assumption: a marshal stub
// returns fresh symbolic bytes and records which key they stand for; the
// matching parse stub returns that key when given the same bytes (compared as
// terms, so the association survives copies and transport), or — by an explicit
// choice — an error / a key of another kind for bytes it has never seen.

import (
	"fmt"
	"go/types"
	"strings"

	"golang.org/x/tools/go/ssa"
)

type derEntry struct {
	kind string // function family, e.g. "pkix", "pkcs1priv", "point:<curve>"
	vals []Value
}

func bytesKey(bs []*Term) string {
	var sb strings.Builder
	for _, b := range bs {
		fmt.Fprintf(&sb, "%d,", b.id)
	}
	return sb.String()
}

func (in *Interp) cryptoFresh(kind string, n int, vals ...Value) *SliceV {
	in.cryptoSeq++
	bs := make([]*Term, n)
	for i := range bs {
		bs[i] = Var(fmt.Sprintf("crypto.%s#%d[%d]", kind, in.cryptoSeq, i), 8)
	}
	if in.der == nil {
		in.der = map[string]*derEntry{}
	}
	in.der[bytesKey(bs)] = &derEntry{kind: kind, vals: vals}
	return in.bytesToSlice(bs)
}

func (in *Interp) cryptoLookup(kind string, s *SliceV) *derEntry {
	if s == nil || s.arr == nil || in.der == nil {
		return nil
	}
	e := in.der[bytesKey(in.sliceBytes(s))]
	if e == nil || e.kind != kind {
		return nil
	}
	return e
}

var cryptoPackages = map[string]bool{"crypto/x509": true, "crypto/elliptic": true, "crypto/ecdsa": true, "crypto/rsa": true, "encoding/pem": true, "crypto/ecdh": true, "crypto/rand": true}

// curves are four distinct canonical objects
func (in *Interp) curve(name string) Value {
	if in.curves == nil {
		in.curves = map[string]Value{}
	}
	if c, ok := in.curves[name]; ok {
		return c
	}
	t := in.namedType("crypto/elliptic", "CurveParams")
	save := in.epoch
	in.epoch = 0
	cell := in.alloc(t)
	in.epoch = save
	markEpoch(cell, 0)
	cell.label = "elliptic." + name
	fieldCell(cell, "Name").v = mkStr(name)
	v := &IfaceV{t: types.NewPointer(t), v: cell}
	in.curves[name] = v
	return v
}

func (in *Interp) errOpaque(what string) Value { return in.mkError(what) }

func (in *Interp) zeroKey(pkg, name string) Value {
	t := in.namedType(pkg, name)
	return &IfaceV{t: types.NewPointer(t), v: in.alloc(t)}
}

// genericCryptoStub: any other function of the crypto packages: total, returns
// zero values, with (nil | error) chosen for a trailing error result.
func genericCryptoStub(in *Interp, caller *frame, fn *ssa.Function, args []Value) Value {
	res := fn.Signature.Results()
	out := make([]Value, res.Len())
	fail := false
	if res.Len() > 0 && types.Identical(res.At(res.Len()-1).Type(), types.Universe.Lookup("error").Type()) {
		fail = in.choose(2, "crypto:"+fn.Name()) == 1
	}
	for i := 0; i < res.Len(); i++ {
		t := res.At(i).Type()
		switch {
		case types.Identical(t, types.Universe.Lookup("error").Type()):
			if fail {
				out[i] = in.errOpaque("crypto: " + fn.Name() + " failed")
			} else {
				out[i] = (*IfaceV)(nil)
			}
		default:
			if p, ok := t.Underlying().(*types.Pointer); ok && !fail {
				out[i] = in.alloc(p.Elem())
			} else {
				out[i] = in.zero(t)
			}
		}
	}
	switch len(out) {
	case 0:
		return nil
	case 1:
		return out[0]
	}
	return out
}

func init() {
	I := intrinsics
	for _, c := range []string{"P224", "P256", "P384", "P521"} {
		c := c
		I["crypto/elliptic."+c] = func(in *Interp, caller *frame, fn *ssa.Function, args []Value) Value { return in.curve(c) }
	}
	curveName := func(in *Interp, v Value) string {
		iv, _ := v.(*IfaceV)
		if iv == nil {
			return "nil"
		}
		if c, ok := iv.v.(*Cell); ok && c != nil {
			return c.label
		}
		return "?"
	}
	I["crypto/elliptic.Marshal"] = func(in *Interp, caller *frame, fn *ssa.Function, args []Value) Value {
		return in.cryptoFresh("point:"+curveName(in, args[0]), 5, args[1], args[2])
	}
	unmarshal := func(in *Interp, caller *frame, fn *ssa.Function, args []Value) Value {
		if e := in.cryptoLookup("point:"+curveName(in, args[0]), args[1].(*SliceV)); e != nil {
			return []Value{e.vals[0], e.vals[1]}
		}
		// unknown bytes: either not a point, or some point
		if in.choose(2, "elliptic.Unmarshal") == 0 {
			return []Value{(*Cell)(nil), (*Cell)(nil)}
		}
		bt := in.namedType("math/big", "Int")
		return []Value{in.alloc(bt), in.alloc(bt)}
	}
	I["crypto/elliptic.Unmarshal"] = unmarshal
	I["crypto/elliptic.UnmarshalCompressed"] = unmarshal
	I["(*crypto/elliptic.CurveParams).ScalarBaseMult"] = func(in *Interp, caller *frame, fn *ssa.Function, args []Value) Value {
		bt := in.namedType("math/big", "Int")
		return []Value{in.alloc(bt), in.alloc(bt)}
	}
	I["(*crypto/rsa.PrivateKey).Precompute"] = func(in *Interp, caller *frame, fn *ssa.Function, args []Value) Value { return nil }

	// marshal / parse pairs on keys
	type pair struct{ marshal, parse, kind string }
	for _, p := range []pair{
		{"crypto/x509.MarshalPKIXPublicKey", "crypto/x509.ParsePKIXPublicKey", "pkix"},
		{"crypto/x509.MarshalPKCS8PrivateKey", "crypto/x509.ParsePKCS8PrivateKey", "pkcs8"},
		{"crypto/x509.MarshalPKCS1PrivateKey", "crypto/x509.ParsePKCS1PrivateKey", "pkcs1priv"},
		{"crypto/x509.MarshalPKCS1PublicKey", "crypto/x509.ParsePKCS1PublicKey", "pkcs1pub"},
		{"crypto/x509.MarshalECPrivateKey", "crypto/x509.ParseECPrivateKey", "sec1"},
	} {
		p := p
		I[p.marshal] = func(in *Interp, caller *frame, fn *ssa.Function, args []Value) Value {
			der := in.cryptoFresh(p.kind, 6, args[0])
			if fn.Signature.Results().Len() == 2 {
				return []Value{der, (*IfaceV)(nil)}
			}
			return der
		}
		I[p.parse] = func(in *Interp, caller *frame, fn *ssa.Function, args []Value) Value {
			rt := fn.Signature.Results().At(0).Type()
			if e := in.cryptoLookup(p.kind, args[0].(*SliceV)); e != nil {
				v := e.vals[0]
				// marshal took `any` or a typed pointer; parse returns `any` or a typed pointer
				if _, isI := rt.Underlying().(*types.Interface); isI {
					if iv, ok := v.(*IfaceV); ok {
						return []Value{iv, (*IfaceV)(nil)}
					}
					return []Value{&IfaceV{t: fn.Pkg.Prog.ImportedPackage("crypto/rsa").Type("PrivateKey").Type(), v: v}, (*IfaceV)(nil)}
				}
				if iv, ok := v.(*IfaceV); ok {
					return []Value{iv.v, (*IfaceV)(nil)}
				}
				return []Value{v, (*IfaceV)(nil)}
			}
			// bytes that were not produced by the matching marshal function: an error,
			// or (for the `any`-returning parsers) a key of either kind
			if _, isI := rt.Underlying().(*types.Interface); isI {
				switch in.choose(3, p.parse) {
				case 0:
					return []Value{(*IfaceV)(nil), in.errOpaque(p.parse + ": malformed")}
				case 1:
					if p.kind == "pkix" {
						return []Value{in.zeroKey("crypto/rsa", "PublicKey"), (*IfaceV)(nil)}
					}
					return []Value{in.zeroKey("crypto/rsa", "PrivateKey"), (*IfaceV)(nil)}
				default:
					if p.kind == "pkix" {
						return []Value{in.zeroKey("crypto/ecdsa", "PublicKey"), (*IfaceV)(nil)}
					}
					return []Value{in.zeroKey("crypto/ecdsa", "PrivateKey"), (*IfaceV)(nil)}
				}
			}
			if in.choose(2, p.parse) == 0 {
				return []Value{in.zero(rt), in.errOpaque(p.parse + ": malformed")}
			}
			return []Value{in.alloc(rt.Underlying().(*types.Pointer).Elem()), (*IfaceV)(nil)}
		}
	}
}
