package kmipserver

// C16 — shutdown drains cleanly and connection hooks are paired.

import (
	"context"
	"errors"
	"net"

	"github.com/ovh/kmip-go"
)

type c16Listener struct {
	queue  []net.Conn
	closed bool
}

func (l *c16Listener) Accept() (net.Conn, error) {
	verifBlock(func() bool { return l.closed || len(l.queue) > 0 })
	if l.closed {
		return nil, net.ErrClosed
	}
	c := l.queue[0]
	l.queue = l.queue[1:]
	return c, nil
}
func (l *c16Listener) Close() error   { l.closed = true; return nil }
func (l *c16Listener) Addr() net.Addr { return c08Addr{} }

type c16World struct {
	connects     int // successful connect hooks
	connectFails int
	terminates   int
	running      int
	started      int
	finished     int
	lastFinish   map[string]int // per connection: sequence number of its last handler return
	termSeq      map[string]int
	seq          int
	hookFail     []bool
	slow         bool
	nconn        int
}

type c16ConnKey struct{}

func (w *c16World) HandleOperation(ctx context.Context, req kmip.OperationPayload) (kmip.OperationPayload, error) {
	id, _ := ctx.Value(c16ConnKey{}).(string)
	w.started++
	w.running++
	if w.slow {
		// a slow handler: returns only when its context is cancelled — which
		// shutdown may only do once the grace period has run out (its timer fired)
		verifBlock(func() bool { return ctx.Err() != nil })
		verifAssert("a running handler is cancelled only after the grace period", verifTimersFired() > 0)
	} else {
		verifYield()
	}
	w.running--
	w.finished++
	w.seq++
	w.lastFinish[id] = w.seq
	return kmip.NewUnknownPayload(kmip.OperationActivate), nil
}

// VerifC16_Shutdown: nconn connections (each with nreq queued requests), the
// connect hook of connection i fails iff bit i of failMask is set, handlers are
// slow iff slow==1; late==1: the last connection arrives only once shutdown
// has begun; trig: when shutdown starts (see below).
func VerifC16_Shutdown(nconn, nreq, failMask, slow, late, trig int) {
	w := &c16World{lastFinish: map[string]int{}, termSeq: map[string]int{}, slow: slow == 1, nconn: nconn}
	exec := NewBatchExecutor()
	exec.Route(kmip.OperationActivate, w)
	l := &c16Listener{}
	srv := NewServer(l, exec)
	hookNo := 0
	srv.WithConnectHook(func(ctx context.Context) (context.Context, error) {
		i := hookNo
		hookNo++
		if failMask&(1<<i) != 0 {
			w.connectFails++
			return ctx, errors.New("connect hook refused")
		}
		w.connects++
		return context.WithValue(ctx, c16ConnKey{}, "c"+string(rune('0'+i))), nil
	})
	srv.WithTerminateHook(func(ctx context.Context) {
		id, _ := ctx.Value(c16ConnKey{}).(string)
		w.terminates++
		w.seq++
		w.termSeq[id] = w.seq
		verifAssert("terminate hook only for connections whose connect hook succeeded", id != "")
		verifAssert("terminate hook after the connection's handlers", w.running == 0 || w.nconn > 1)
	})
	var conns []*c08Conn
	for i := 0; i < nconn; i++ {
		c := &c08Conn{writeFail: -1}
		for r := 0; r < nreq; r++ {
			c.inbox = append(c.inbox, c08Event{req: c08Request(r)})
		}
		conns = append(conns, c)
	}
	var serveErr error
	serveDone := false
	go func() {
		serveErr = srv.Serve()
		serveDone = true
	}()
	n := nconn
	if late == 1 {
		n = nconn - 1
	}
	for i := 0; i < n; i++ {
		l.queue = append(l.queue, conns[i])
	}
	if late == 1 {
		// arrives while shutdown is in progress (or just before): racing
		go func() {
			l.queue = append(l.queue, conns[nconn-1])
		}()
	}
	// shutdown begins at trigger point trig: 0 at once (racing with accept),
	// 1 when the connections present are established and idle or busy (hooks run),
	// 2 while a handler is running, 3 after every queued request was answered
	switch trig {
	case 0:
		verifYield()
	case 1:
		verifBlock(func() bool { return w.connects+w.connectFails >= n })
	case 2:
		verifBlock(func() bool {
			return w.running > 0 || w.connects+w.connectFails >= n && w.finished >= nreq*w.connects
		})
	default:
		verifBlock(func() bool {
			answered := 0
			// all connections: the late one may be accepted (and take the first
			// hook slot) before the ones queued at the start
			for _, c := range conns {
				answered += len(c.outbox)
			}
			return answered >= nreq*w.connects && w.connects+w.connectFails >= n || w.slow && w.running > 0
		})
	}
	err := srv.Shutdown()
	startedAtReturn := w.started
	verifAssert("shutdown reports the listener's close result", err == nil)
	verifAssert("listener closed", l.closed)
	verifAssert("no handler running when shutdown returns", w.running == 0)
	verifBlock(func() bool { return serveDone })
	verifAssert("accept loop ended with the shutdown error", errors.Is(serveErr, ErrShutdown))
	verifQuiesce()
	verifAssert("no handler started after shutdown returned", w.started == startedAtReturn)
	verifAssert("every started handler has finished", w.started == w.finished)
	verifAssert("all connection goroutines have ended", verifLiveGoroutines() == 0)
	verifAssert("terminate hook ran once per successful connect hook", w.terminates == w.connects)
	for id, t := range w.termSeq {
		if lf, ok := w.lastFinish[id]; ok {
			verifAssert("terminate hook after the last handler of its connection", t > lf)
		}
	}
	for _, c := range conns[:n] {
		if c.closed {
			continue
		}
		// a connection still queued in the listener when it closed was never accepted
		verifAssert("accepted connections are closed by the server", !serveDone || len(l.queue) > 0)
	}
}
