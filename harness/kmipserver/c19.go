package kmipserver

// C19 — middleware chains run in order and are re-entrant (server message
// chain and server batch-item chain). C15 — the ID placeholder is scoped to a
// single request.

import (
	"context"
	"errors"
	"strconv"

	"github.com/ovh/kmip-go"
	"github.com/ovh/kmip-go/payloads"
)

type c19Key struct{}

type c19Stage struct {
	k       int
	replMsg bool
	replCtx bool
	fail    bool
}

type c19World struct {
	stages []c19Stage
	trace  []string
	calls  int // executions of the core handler so far
	hfail  int // 0: never fails; 1: returns an error on its first execution; 2: panics on its first execution
}

func c19CtxLabel(ctx context.Context) string {
	s, _ := ctx.Value(c19Key{}).(string)
	return s
}

func c19Stages(n int) []c19Stage {
	st := make([]c19Stage, n)
	for i := range st {
		st[i] = c19Stage{k: verifChoose("k", 3), replMsg: verifChoose("replMsg", 2) == 1, replCtx: verifChoose("replCtx", 2) == 1, fail: verifChoose("fail", 2) == 1}
	}
	return st
}

// ref is the reference model: stage i calls the rest of the chain k times and
// keeps every result; it returns the label of the result the stage hands back.
// A result is labelled by what the core handler answered when it produced it
// ("<message>#<execution number>", or "failed").
func (w *c19World) ref(i int, msg, ctx string, out *[]string, calls *int) string {
	if i == len(w.stages) {
		*out = append(*out, "T:"+msg+":"+ctx)
		*calls++
		if w.hfail != 0 && *calls == 1 {
			return "failed"
		}
		return msg + "#" + strconv.Itoa(*calls)
	}
	s := w.stages[i]
	id := strconv.Itoa(i)
	*out = append(*out, "S"+id+":"+msg+":"+ctx)
	m2, c2 := msg, ctx
	if s.replMsg {
		m2 = "m" + id
	}
	if s.replCtx {
		c2 = "c" + id
	}
	var kept []string
	for j := 0; j < s.k; j++ {
		kept = append(kept, w.ref(i+1, m2, c2, out, calls))
		*out = append(*out, "R"+id)
	}
	// what the stage still holds after all its calls
	for j, r := range kept {
		*out = append(*out, "K"+id+":"+strconv.Itoa(j)+":"+r)
	}
	if s.fail {
		return "failed"
	}
	if len(kept) == 0 {
		return "failed"
	}
	return kept[len(kept)-1]
}

func c19ItemLabel(bi *kmip.ResponseBatchItem) string {
	if bi == nil {
		return "nil"
	}
	if bi.ResultStatus != kmip.ResultStatusSuccess {
		return "failed"
	}
	if pl, ok := bi.ResponsePayload.(*payloads.ActivateResponsePayload); ok && pl != nil {
		return pl.UniqueIdentifier
	}
	return "nopayload"
}

func c19Request(label string) *kmip.RequestMessage {
	req := &kmip.RequestMessage{}
	req.Header.ProtocolVersion = kmip.V1_4
	req.Header.BatchCount = 1
	req.BatchItem = []kmip.RequestBatchItem{{Operation: kmip.OperationActivate, RequestPayload: &payloads.ActivateRequestPayload{UniqueIdentifier: label}}}
	return req
}

func (w *c19World) handler() OperationHandler {
	return handlerFunc(func(ctx context.Context, req kmip.OperationPayload) (kmip.OperationPayload, error) {
		pl := req.(*payloads.ActivateRequestPayload)
		w.trace = append(w.trace, "T:"+pl.UniqueIdentifier+":"+c19CtxLabel(ctx))
		w.calls++
		if w.calls == 1 {
			switch w.hfail {
			case 1:
				return nil, errors.New("handler error")
			case 2:
				panic("handler panic")
			}
		}
		return &payloads.ActivateResponsePayload{UniqueIdentifier: pl.UniqueIdentifier + "#" + strconv.Itoa(w.calls)}, nil
	})
}

func c19Compare(got, want []string) {
	verifAssert("same number of stage executions", len(got) == len(want))
	for i := range want {
		if i >= len(got) {
			break
		}
		if got[i] != want[i] {
			verifObserveStr("trace got", got[i])
			verifObserveStr("trace want", want[i])
		}
		verifAssert("trace entry", got[i] == want[i])
	}
}

func VerifC19_Server(n int) {
	w := &c19World{stages: c19Stages(n), hfail: verifChoose("hfail", 3)}
	exec := NewBatchExecutor()
	exec.Route(kmip.OperationActivate, w.handler())
	for i := range w.stages {
		s := w.stages[i]
		id := strconv.Itoa(i)
		exec.Use(func(next Next, ctx context.Context, msg *kmip.RequestMessage) (*kmip.ResponseMessage, error) {
			label := msg.BatchItem[0].RequestPayload.(*payloads.ActivateRequestPayload).UniqueIdentifier
			w.trace = append(w.trace, "S"+id+":"+label+":"+c19CtxLabel(ctx))
			m2, c2 := msg, ctx
			if s.replMsg {
				m2 = c19Request("m" + id)
			}
			if s.replCtx {
				c2 = context.WithValue(ctx, c19Key{}, "c"+id)
			}
			var resp *kmip.ResponseMessage
			err := errors.New("short circuit")
			var kept []*kmip.ResponseMessage
			var keptErr []error
			for j := 0; j < s.k; j++ {
				resp, err = next(c2, m2)
				kept = append(kept, resp)
				keptErr = append(keptErr, err)
				w.trace = append(w.trace, "R"+id)
			}
			for j, r := range kept {
				l := "nil"
				if r != nil && len(r.BatchItem) == 1 {
					l = c19ItemLabel(&r.BatchItem[0])
				}
				if keptErr[j] != nil {
					l = "failed"
				}
				w.trace = append(w.trace, "K"+id+":"+strconv.Itoa(j)+":"+l)
			}
			if s.fail {
				return nil, errors.New("stage error")
			}
			return resp, err
		})
	}
	resp := exec.HandleRequest(context.WithValue(context.Background(), c19Key{}, "c"), c19Request("m"))
	verifAssert("a response is produced", resp != nil)
	var want []string
	calls := 0
	w.ref(0, "m", "c", &want, &calls)
	c19Compare(w.trace, want)
}

func VerifC19_Item(n int) {
	w := &c19World{stages: c19Stages(n), hfail: verifChoose("hfail", 3)}
	exec := NewBatchExecutor()
	exec.Route(kmip.OperationActivate, w.handler())
	for i := range w.stages {
		s := w.stages[i]
		id := strconv.Itoa(i)
		exec.BatchItemUse(func(next BatchItemNext, ctx context.Context, bi *kmip.RequestBatchItem) (*kmip.ResponseBatchItem, error) {
			label := bi.RequestPayload.(*payloads.ActivateRequestPayload).UniqueIdentifier
			w.trace = append(w.trace, "S"+id+":"+label+":"+c19CtxLabel(ctx))
			b2, c2 := bi, ctx
			if s.replMsg {
				b2 = &c19Request("m" + id).BatchItem[0]
			}
			if s.replCtx {
				c2 = context.WithValue(ctx, c19Key{}, "c"+id)
			}
			resp := &kmip.ResponseBatchItem{Operation: bi.Operation, ResultStatus: kmip.ResultStatusOperationFailed}
			err := errors.New("short circuit")
			var kept []*kmip.ResponseBatchItem
			var keptErr []error
			for j := 0; j < s.k; j++ {
				resp, err = next(c2, b2)
				kept = append(kept, resp)
				keptErr = append(keptErr, err)
				w.trace = append(w.trace, "R"+id)
			}
			for j, r := range kept {
				l := c19ItemLabel(r)
				if keptErr[j] != nil {
					l = "failed"
				}
				w.trace = append(w.trace, "K"+id+":"+strconv.Itoa(j)+":"+l)
			}
			if s.fail {
				return &kmip.ResponseBatchItem{Operation: bi.Operation, ResultStatus: kmip.ResultStatusOperationFailed}, errors.New("stage error")
			}
			return resp, err
		})
	}
	resp := exec.HandleRequest(context.WithValue(context.Background(), c19Key{}, "c"), c19Request("m"))
	verifAssert("a response is produced", resp != nil && len(resp.BatchItem) == 1)
	var want []string
	calls := 0
	res := w.ref(0, "m", "c", &want, &calls)
	c19Compare(w.trace, want)
	if resp != nil && len(resp.BatchItem) == 1 {
		verifAssert("the response carries the outermost stage's result", c19ItemLabel(&resp.BatchItem[0]) == res)
	}
}

// ---------------------------------------------------------------------------
// C15

type c15Action struct {
	kind int // 0 read, 1 set, 2 clear, 3 fail, 4 panic, 5 set then fail
	id   string
}

type c15World struct {
	actions map[string]c15Action
	reads   map[string]string // item label -> placeholder value observed at entry
}

func (w *c15World) handler() OperationHandler {
	return handlerFunc(func(ctx context.Context, req kmip.OperationPayload) (kmip.OperationPayload, error) {
		pl := req.(*payloads.ActivateRequestPayload)
		label := pl.UniqueIdentifier
		w.reads[label] = IdPlaceholder(ctx)
		a := w.actions[label]
		switch a.kind {
		case 1:
			SetIdPlaceholder(ctx, a.id)
		case 2:
			ClearIdPlaceholder(ctx)
		case 3:
			return nil, errors.New("failed")
		case 4:
			panic("handler panic")
		case 5:
			SetIdPlaceholder(ctx, a.id)
			return nil, ErrItemNotFound
		}
		return &payloads.ActivateResponsePayload{UniqueIdentifier: label}, nil
	})
}

func c15Request(w *c15World, r, n int) *kmip.RequestMessage {
	req := &kmip.RequestMessage{}
	req.Header.ProtocolVersion = kmip.V1_4
	req.Header.BatchCount = int32(n)
	for i := 0; i < n; i++ {
		label := "r" + strconv.Itoa(r) + "i" + strconv.Itoa(i)
		a := c15Action{kind: verifChoose("action", 6)}
		if a.kind == 1 || a.kind == 5 {
			// any identifier, the empty one included (an operation that matched nothing)
			a.id = verifNondetString("id", 2*verifChoose("idlen", 2))
		}
		w.actions[label] = a
		req.BatchItem = append(req.BatchItem, kmip.RequestBatchItem{Operation: kmip.OperationActivate, RequestPayload: &payloads.ActivateRequestPayload{UniqueIdentifier: label}})
	}
	return req
}

// VerifC15_History: two consecutive requests (n1 and n2 items) on one executor
// and one connection context.
func VerifC15_History(n1, n2 int) {
	w := &c15World{actions: map[string]c15Action{}, reads: map[string]string{}}
	exec := NewBatchExecutor()
	exec.Route(kmip.OperationActivate, w.handler())
	connCtx := newConnContext(context.Background(), "peer", nil)
	for r, n := range []int{n1, n2} {
		req := c15Request(w, r, n)
		resp := exec.HandleRequest(connCtx, req)
		verifAssert("response", resp != nil && len(resp.BatchItem) == n)
		expect := "" // empty at the start of every request
		for i := 0; i < n; i++ {
			label := "r" + strconv.Itoa(r) + "i" + strconv.Itoa(i)
			got, ran := w.reads[label]
			verifAssert("every item ran (Continue is the default)", ran)
			verifAssert("placeholder observed = latest value of this request", got == expect)
			switch a := w.actions[label]; a.kind {
			case 1:
				expect = a.id
			case 2, 3, 4, 5:
				expect = "" // cleared explicitly or because the item failed
			}
		}
		verifAssert("not readable from the connection context", IdPlaceholder(connCtx) == "")
	}
}

// VerifC15_Step: one inductive step — HandleRequest entered with an arbitrary
// parent context, including one that still carries the holder of a previous
// request with a stale value: handlers see a fresh, empty holder.
func VerifC15_Step(n int) {
	w := &c15World{actions: map[string]c15Action{}, reads: map[string]string{}}
	exec := NewBatchExecutor()
	exec.Route(kmip.OperationActivate, w.handler())
	stale := verifNondetString("stale", 2)
	parent := newBatchContext(newConnContext(context.Background(), "peer", nil), kmip.RequestHeader{})
	SetIdPlaceholder(parent, stale)
	req := c15Request(w, 0, n)
	exec.HandleRequest(parent, req)
	if n > 0 {
		verifAssert("first read of the request is empty whatever the parent context holds", w.reads["r0i0"] == "")
	}
	verifAssert("the parent's holder is untouched", IdPlaceholder(parent) == stale)
}

// VerifC15_Concurrent: after an optional request that is rejected at message
// level, two requests are processed at the same time on two connections; their
// handlers interleave (scheduling point between every read and write of the
// placeholder): each request only ever observes its own values.
func VerifC15_Concurrent(rejectedFirst int) {
	exec := NewBatchExecutor()
	seen := map[string]string{}
	exec.Route(kmip.OperationActivate, handlerFunc(func(ctx context.Context, req kmip.OperationPayload) (kmip.OperationPayload, error) {
		label := req.(*payloads.ActivateRequestPayload).UniqueIdentifier
		verifYield()
		seen[label] = IdPlaceholder(ctx)
		verifYield()
		SetIdPlaceholder(ctx, "id-"+label[:1])
		verifYield()
		return &payloads.ActivateResponsePayload{UniqueIdentifier: label}, nil
	}))
	if rejectedFirst == 1 {
		bad := c19Request("x")
		bad.Header.ProtocolVersion = kmip.ProtocolVersion{ProtocolVersionMajor: 9, ProtocolVersionMinor: 9}
		exec.HandleRequest(newConnContext(context.Background(), "peer0", nil), bad)
	}
	mk := func(p string) *kmip.RequestMessage {
		r := c19Request(p + "1")
		r.BatchItem = append(r.BatchItem, kmip.RequestBatchItem{Operation: kmip.OperationActivate, RequestPayload: &payloads.ActivateRequestPayload{UniqueIdentifier: p + "2"}})
		r.Header.BatchCount = 2
		return r
	}
	doneA, doneB := false, false
	go func() {
		exec.HandleRequest(newConnContext(context.Background(), "peerA", nil), mk("a"))
		doneA = true
	}()
	go func() {
		exec.HandleRequest(newConnContext(context.Background(), "peerB", nil), mk("b"))
		doneB = true
	}()
	verifBlock(func() bool { return doneA && doneB })
	verifAssert("A: empty at the start", seen["a1"] == "")
	verifAssert("B: empty at the start", seen["b1"] == "")
	verifAssert("A: second item sees A's value", seen["a2"] == "id-a")
	verifAssert("B: second item sees B's value", seen["b2"] == "id-b")
}
