package kmipserver

// C08 — server stays available whatever clients and handlers do (one
// connection: handleConn + readloop + writeloop against a scripted peer).
// Concurrent mode: every channel/atomic/context operation is a scheduling
// point; the transport speaks whole messages (codec cut out).

import (
	"context"
	"errors"
	"io"
	"net"
	"strconv"
	"time"

	"github.com/ovh/kmip-go"
	"github.com/ovh/kmip-go/ttlv"
)

type c08Event struct {
	req *kmip.RequestMessage // a well-formed request
	bad bool                 // correctly framed but undecodable (encoding error)
}

type c08Conn struct {
	inbox      []c08Event
	outbox     []*kmip.ResponseMessage
	peerClosed bool // the peer has closed its side: reads see EOF after the queue, writes fail
	reset      bool // peer reset: queued input is lost, reads fail immediately
	closed     bool // Close() called by the server
	writeFail  int  // index of the write that fails (-1 none)
	writes     int
}

var errC08Reset = errors.New("connection reset by peer")

func (c *c08Conn) VerifRecvMsg(ptr any) error {
	verifBlock(func() bool { return c.closed || c.reset || len(c.inbox) > 0 || c.peerClosed })
	if c.closed {
		return net.ErrClosed
	}
	if c.reset {
		return errC08Reset
	}
	if len(c.inbox) == 0 {
		return io.EOF
	}
	ev := c.inbox[0]
	c.inbox = c.inbox[1:]
	if ev.bad {
		return ttlv.Errorf("undecodable message")
	}
	ptr.(*recvMsg).msg = ev.req
	return nil
}

func (c *c08Conn) VerifSendMsg(msg any) error {
	verifYield()
	idx := c.writes
	c.writes++
	if c.closed {
		return net.ErrClosed
	}
	if c.reset || c.peerClosed || idx == c.writeFail {
		return errC08Reset
	}
	c.outbox = append(c.outbox, msg.(*kmip.ResponseMessage))
	return nil
}

func (c *c08Conn) Read(p []byte) (int, error)         { panic("byte-level read in message-level scenario") }
func (c *c08Conn) Write(p []byte) (int, error)        { panic("byte-level write in message-level scenario") }
func (c *c08Conn) Close() error                       { c.closed = true; return nil }
func (c *c08Conn) LocalAddr() net.Addr                { return c08Addr{} }
func (c *c08Conn) RemoteAddr() net.Addr               { return c08Addr{} }
func (c *c08Conn) SetDeadline(t time.Time) error      { return nil }
func (c *c08Conn) SetReadDeadline(t time.Time) error  { return nil }
func (c *c08Conn) SetWriteDeadline(t time.Time) error { return nil }

type c08Addr struct{}

func (c08Addr) Network() string { return "stub" }
func (c08Addr) String() string  { return "peer" }

type c08Handler struct {
	started  []string
	finished []string
	outcome  map[string]int
	release  bool
	hold     string
}

// operation handler behind the real BatchExecutor: outcome per request chosen
// when it runs: 0 ok, 1 slow (waits until released or cancelled), 2 panic,
// 3 error.
func (h *c08Handler) HandleOperation(ctx context.Context, req kmip.OperationPayload) (kmip.OperationPayload, error) {
	label := GetRequestHeader(ctx).ClientCorrelationValue
	h.started = append(h.started, label)
	o := verifChoose("handler", 4)
	h.outcome[label] = o
	switch o {
	case 1:
		// only the request during which the peer disconnects is held
		verifBlock(func() bool { return h.release || label != h.hold || ctx.Err() != nil })
	case 2:
		panic("operation handler panic")
	case 3:
		return nil, errors.New("operation failed")
	}
	h.finished = append(h.finished, label)
	return kmip.NewUnknownPayload(kmip.OperationActivate), nil
}

func c08Request(i int) *kmip.RequestMessage {
	r := &kmip.RequestMessage{}
	r.Header.ProtocolVersion = kmip.V1_4
	r.Header.ClientCorrelationValue = "r" + strconv.Itoa(i)
	r.Header.BatchCount = 1
	r.BatchItem = []kmip.RequestBatchItem{{Operation: kmip.OperationActivate, RequestPayload: kmip.NewUnknownPayload(kmip.OperationActivate)}}
	return r
}

// VerifC08_Conn: nreq requests queued by the peer (request number badIdx is
// undecodable, -1 for none); the peer ends the connection (close or reset) at
// trigger point trig:
//   0            before the server has read anything
//   2k+1         while the handler of request k is running
//   2k+2         after response k has been written
//   2*nreq+1     after everything has been answered
// writeFail: index of the response write that fails (-1 none).
func VerifC08_Conn(nreq, badIdx, trig, writeFail int) {
	h := &c08Handler{outcome: map[string]int{}}
	exec := NewBatchExecutor()
	exec.Route(kmip.OperationActivate, h)
	srv := NewServer(nil, exec)
	c := &c08Conn{writeFail: writeFail}
	for i := 0; i < nreq; i++ {
		c.inbox = append(c.inbox, c08Event{req: c08Request(i), bad: i == badIdx})
	}
	// a slow handler is only held while the peer disconnects during its run
	h.release = !(trig%2 == 1 && trig < 2*nreq+1)
	h.hold = "r" + strconv.Itoa(trig/2)
	srv.wg.Add(1)
	go srv.handleConn(c)

	// the peer's script
	switch {
	case trig == 0:
	case trig%2 == 1 && trig < 2*nreq+1:
		k := strconv.Itoa(trig / 2)
		verifBlock(func() bool {
			for _, s := range h.started {
				if s == "r"+k {
					return true
				}
			}
			return c.closed // the server gave up earlier
		})
	default:
		want := trig / 2
		if want > nreq {
			want = nreq
		}
		verifBlock(func() bool { return len(c.outbox) >= want || c.closed })
	}
	if verifChoose("how", 2) == 0 {
		c.peerClosed = true
	} else {
		c.reset = true
	}
	h.release = true
	verifQuiesce()

	verifAssert("connection goroutines have all ended", verifLiveGoroutines() == 0)
	verifAssert("server closed its side", c.closed)
	// responses are in request order, at most one per request
	verifAssert("no more responses than requests", len(c.outbox) <= nreq)
	for i, r := range c.outbox {
		if i == badIdx {
			verifAssert("undecodable request answered by one invalid-message item", len(r.BatchItem) == 1 && r.BatchItem[0].ResultStatus == kmip.ResultStatusOperationFailed && r.BatchItem[0].ResultReason == kmip.ResultReasonInvalidMessage)
			continue
		}
		verifAssert("responses in request order", r.Header.ClientCorrelationValue == "r"+strconv.Itoa(i))
	}
	for i := 0; i < nreq && (badIdx < 0 || i < badIdx); i++ {
		n := 0
		for _, s := range h.started {
			if s == "r"+strconv.Itoa(i) {
				n++
			}
		}
		verifAssert("each request handled at most once", n <= 1)
	}
	if trig == 2*nreq+1 && writeFail < 0 {
		limit := nreq
		if badIdx >= 0 {
			limit = badIdx + 1 // the server ends the connection after an undecodable message
		}
		verifAssert("every request on a live connection is answered", len(c.outbox) == limit)
	}
}
