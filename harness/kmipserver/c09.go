package kmipserver

// C09 — server batch execution follows KMIP batch semantics. The batch is
// executed by the real BatchExecutor; a reference model of the statement is
// evaluated next to it and compared field by field.

import (
	"context"
	"errors"

	"github.com/ovh/kmip-go"
	"github.com/ovh/kmip-go/payloads"
)

const (
	c09OpA = kmip.OperationActivate
	c09OpB = kmip.OperationDestroy
)

type c09Stringer struct{}

func (c09Stringer) String() string { return "stringer" }

type c09Item struct {
	op       kmip.Operation
	id       []byte
	ext      int // 0 none, 1 non-critical, 2 critical
	outcome  int // decided when (if) the handler runs
	reason   kmip.ResultReason
	executed int
}

type c09World struct {
	reduced bool
	items []*c09Item
	log   []int
	plIdx map[kmip.OperationPayload]int
}

func (w *c09World) handler() OperationHandler {
	return handlerFunc(func(ctx context.Context, req kmip.OperationPayload) (kmip.OperationPayload, error) {
		idx, ok := w.plIdx[req]
		if !ok {
			panic("handler called with a payload that is not part of the request")
		}
		it := w.items[idx]
		it.executed++
		w.log = append(w.log, idx)
		if w.reduced {
			it.outcome = []int{0, 1, 4}[verifChoose("outcome", 3)]
		} else {
			it.outcome = verifChoose("outcome", 7)
		}
		switch it.outcome {
		case 0:
			return &payloads.ActivateResponsePayload{UniqueIdentifier: "ok"}, nil
		case 1:
			it.reason = kmip.ResultReason(verifNondetUint32("reason"))
			return nil, Error{Reason: it.reason, Message: "typed"}
		case 2:
			return nil, errors.New("plain")
		case 3:
			panic(errors.New("panic-error"))
		case 4:
			panic("panic-string")
		case 5:
			panic(c09Stringer{})
		default:
			panic(42)
		}
	})
}

func c09Build(n int, reduced bool) (*BatchExecutor, *c09World, *kmip.RequestMessage) {
	w := &c09World{plIdx: map[kmip.OperationPayload]int{}, reduced: reduced}
	exec := NewBatchExecutor()
	exec.Route(c09OpA, w.handler())
	exec.Route(c09OpB, w.handler())
	req := &kmip.RequestMessage{}
	req.Header.ProtocolVersion = kmip.ProtocolVersion{ProtocolVersionMajor: verifNondetInt32("major"), ProtocolVersionMinor: verifNondetInt32("minor")}
	req.Header.BatchErrorContinuationOption = kmip.BatchErrorContinuationOption(verifNondetUint32("option"))
	req.Header.BatchCount = verifNondetInt32("count")
	if reduced {
		// header validation is independent of the items (decided with n <= 1):
		// here the header is valid and only the continuation option varies
		req.Header.ProtocolVersion = kmip.ProtocolVersion{ProtocolVersionMajor: 1, ProtocolVersionMinor: int32(verifChoose("minor", 5))}
		req.Header.BatchCount = int32(n)
		verifAssume(req.Header.BatchErrorContinuationOption != kmip.BatchErrorContinuationOptionUndo)
	}
	for i := 0; i < n; i++ {
		it := &c09Item{op: kmip.Operation(verifNondetUint32("op"))}
		if reduced {
			it.ext = 2 * verifChoose("ext", 2)
			if i%2 == 0 {
				it.id = verifNondetBytes("id", 4)
			}
		} else {
			it.ext = verifChoose("ext", 3)
			if verifChoose("hasid", 2) == 1 {
				it.id = verifNondetBytes("id", 4)
			}
		}
		pl := kmip.NewUnknownPayload(it.op)
		w.plIdx[pl] = i
		bi := kmip.RequestBatchItem{Operation: it.op, UniqueBatchItemID: it.id, RequestPayload: pl}
		if it.ext > 0 {
			bi.MessageExtension = &kmip.MessageExtension{VendorIdentification: "v", CriticalityIndicator: it.ext == 2}
		}
		req.BatchItem = append(req.BatchItem, bi)
		w.items = append(w.items, it)
	}
	return exec, w, req
}

func c09Supported(v kmip.ProtocolVersion) bool {
	return v.ProtocolVersionMajor == 1 && v.ProtocolVersionMinor >= 0 && v.ProtocolVersionMinor <= 4
}

func VerifC09_Batch(n, reduced int) {
	exec, w, req := c09Build(n, reduced == 1)
	resp := exec.HandleRequest(context.Background(), req)
	verifAssert("response-not-nil", resp != nil)
	if resp == nil {
		return
	}
	hdr := req.Header
	rejected := !c09Supported(hdr.ProtocolVersion) || hdr.BatchErrorContinuationOption == kmip.BatchErrorContinuationOptionUndo || int(hdr.BatchCount) != n
	if rejected {
		verifReach("rejected")
		verifAssert("rejected: single item", len(resp.BatchItem) == 1 && resp.Header.BatchCount == 1)
		verifAssert("rejected: no handler ran", len(w.log) == 0)
		if len(resp.BatchItem) == 1 {
			verifAssert("rejected: item failed", resp.BatchItem[0].ResultStatus == kmip.ResultStatusOperationFailed)
			wantReason := kmip.ResultReasonInvalidMessage
			if c09Supported(hdr.ProtocolVersion) && hdr.BatchErrorContinuationOption == kmip.BatchErrorContinuationOptionUndo {
				wantReason = kmip.ResultReasonFeatureNotSupported
			}
			verifAssert("rejected: reason", resp.BatchItem[0].ResultReason == wantReason)
		}
		return
	}
	verifReach("accepted")
	verifAssert("one response item per request item", len(resp.BatchItem) == n && int(resp.Header.BatchCount) == n)
	verifAssert("version echoed", resp.Header.ProtocolVersion == hdr.ProtocolVersion)
	if len(resp.BatchItem) != n {
		return
	}
	stopOpt := hdr.BatchErrorContinuationOption == kmip.BatchErrorContinuationOptionStop
	stopped := false
	nexec := 0
	for i, it := range w.items {
		r := resp.BatchItem[i]
		verifAssert("operation echoed", r.Operation == it.op)
		verifAssert("id echoed", verifBytesEq(r.UniqueBatchItemID, it.id))
		if stopped {
			verifAssert("after stop: not executed", it.executed == 0)
			verifAssert("after stop: not successful", r.ResultStatus != kmip.ResultStatusSuccess)
			continue
		}
		routed := it.op == c09OpA || it.op == c09OpB
		shouldRun := it.ext != 2 && routed
		if shouldRun {
			verifAssert("executed exactly once", it.executed == 1)
			verifAssert("executed in order", nexec < len(w.log) && w.log[nexec] == i)
			nexec++
		} else {
			verifAssert("not executed", it.executed == 0)
		}
		failed := true
		wantReason := kmip.ResultReasonGeneralFailure
		switch {
		case it.ext == 2:
			wantReason = kmip.ResultReasonFeatureNotSupported
		case !routed:
			wantReason = kmip.ResultReasonOperationNotSupported
		case it.outcome == 0:
			failed = false
		case it.outcome == 1:
			wantReason = it.reason
		}
		if failed {
			verifAssert("failed item: status", r.ResultStatus == kmip.ResultStatusOperationFailed)
			verifAssert("failed item: reason", r.ResultReason == wantReason)
			if stopOpt {
				stopped = true
			}
		} else {
			verifAssert("successful item: status", r.ResultStatus == kmip.ResultStatusSuccess)
			verifAssert("successful item: payload", r.ResponsePayload != nil)
		}
	}
	verifAssert("no extra handler runs", len(w.log) == nexec)
}

// VerifC09_Versions: an executor configured with an arbitrary set of ns
// supported versions (1.0..1.6, symbolic); a request at an arbitrary version is
// executed iff its version is a member of the set, otherwise rejected with a
// single failed item and no handler run.
func VerifC09_Versions(ns int) {
	w := &c09World{plIdx: map[kmip.OperationPayload]int{}, reduced: true}
	exec := NewBatchExecutor()
	exec.Route(c09OpA, w.handler())
	var set []kmip.ProtocolVersion
	for i := 0; i < ns; i++ {
		m := verifNondetInt32("s.minor")
		verifAssume(m >= 0 && m <= 6)
		set = append(set, kmip.ProtocolVersion{ProtocolVersionMajor: 1, ProtocolVersionMinor: m})
	}
	exec.SetSupportedProtocolVersions(append([]kmip.ProtocolVersion(nil), set...)...)
	v := kmip.ProtocolVersion{ProtocolVersionMajor: verifNondetInt32("major"), ProtocolVersionMinor: verifNondetInt32("minor")}
	member := false
	for _, s := range set {
		member = verifOr(member, s == v)
	}
	req := &kmip.RequestMessage{}
	req.Header.ProtocolVersion = v
	req.Header.BatchCount = 1
	it := &c09Item{op: c09OpA}
	pl := kmip.NewUnknownPayload(it.op)
	w.plIdx[pl] = 0
	w.items = append(w.items, it)
	req.BatchItem = []kmip.RequestBatchItem{{Operation: it.op, RequestPayload: pl}}
	resp := exec.HandleRequest(context.Background(), req)
	verifAssert("response", resp != nil && len(resp.BatchItem) == 1)
	if resp == nil || len(resp.BatchItem) != 1 {
		return
	}
	if member {
		verifReach("supported")
		verifAssert("supported version: the item is executed", it.executed == 1)
		verifAssert("supported version: version echoed", resp.Header.ProtocolVersion == v)
	} else {
		verifReach("unsupported")
		verifAssert("unsupported version: no handler runs", it.executed == 0)
		verifAssert("unsupported version: single failed item", resp.BatchItem[0].ResultStatus == kmip.ResultStatusOperationFailed && resp.BatchItem[0].ResultReason == kmip.ResultReasonInvalidMessage)
	}
}

// VerifC08_Header: a decodable request whose header fields are arbitrary (batch
// count any int32 — negative, huge, or disagreeing with the n items present —,
// any protocol version, any maximum response size): HandleRequest returns a
// response (no panic may escape to the connection goroutine), allocates nothing
// proportional to the announced count, and runs a handler only if the count is
// the number of items.
func VerifC08_Header(n int) {
	ran := 0
	exec := NewBatchExecutor()
	exec.Route(kmip.OperationActivate, handlerFunc(func(ctx context.Context, req kmip.OperationPayload) (kmip.OperationPayload, error) {
		ran++
		return &payloads.ActivateResponsePayload{}, nil
	}))
	req := &kmip.RequestMessage{}
	req.Header.ProtocolVersion = kmip.ProtocolVersion{ProtocolVersionMajor: verifNondetInt32("major"), ProtocolVersionMinor: verifNondetInt32("minor")}
	count := verifNondetInt32("count")
	req.Header.BatchCount = count
	req.Header.MaximumResponseSize = verifNondetInt32("maxsize")
	for i := 0; i < n; i++ {
		req.BatchItem = append(req.BatchItem, kmip.RequestBatchItem{Operation: kmip.OperationActivate, RequestPayload: &payloads.ActivateRequestPayload{UniqueIdentifier: "x"}})
	}
	verifAllocLimit("nothing is allocated in proportion to the announced batch count", 64)
	resp := exec.HandleRequest(context.Background(), req) // a panic here is a violation
	verifAssert("a response is produced", resp != nil)
	if int(count) != n {
		verifAssert("count disagreeing with the items: no handler runs", ran == 0)
		verifAssert("count disagreeing with the items: one failed item", resp != nil && len(resp.BatchItem) == 1 && resp.BatchItem[0].ResultStatus == kmip.ResultStatusOperationFailed)
	}
}
