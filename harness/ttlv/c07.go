package ttlv

// C07 — stream framing is independent of how the transport chunks bytes.

import (
	"errors"
	"io"
)

type c07RW struct {
	bufLimit   int // >0: offering a read buffer longer than this is a violation (limit scenario)
	data       []byte
	pos        int
	reads      int
	maxReads   int
	limit      int // offering a slice that reaches beyond this stream offset is a violation
	overOffer  bool
	endOfData  bool // return (0, EOF) when data is exhausted; otherwise (0, nil)
	faultAfter int  // >=0: the read with this index fails with an error and no data
}

var errC07Fault = errors.New("c07 injected fault")

func (r *c07RW) Read(p []byte) (int, error) {
	idx := r.reads
	r.reads++
	if r.pos+len(p) > r.limit {
		r.overOffer = true
	}
	if r.bufLimit > 0 {
		verifAssert("rejected-without-buffering", len(p) <= r.bufLimit)
	}
	if r.faultAfter >= 0 && idx == r.faultAfter {
		return 0, errC07Fault
	}
	remaining := len(r.data) - r.pos
	if remaining == 0 {
		if r.endOfData {
			return 0, io.EOF
		}
		return 0, nil
	}
	n := verifNondetInt("n")
	verifAssume(n >= 1 && n <= len(p) && n <= remaining)
	if r.reads >= r.maxReads {
		// read budget used up: from now on every read delivers all it can
		verifAssume(n == len(p) || n == remaining)
	}
	copy(p[:n], r.data[r.pos:r.pos+n])
	r.pos += n
	// the io.Reader contract also allows data together with an error
	if verifNondetBool("eofWithData") {
		verifAssume(r.pos == len(r.data))
		return n, io.EOF
	}
	return n, nil
}

func (r *c07RW) Write(p []byte) (int, error) { return len(p), nil }
func (r *c07RW) Close() error                { return nil }

// c07Capture is a decode target that records the exact buffer the stream
// hands to the decoder instead of decoding it (the decoding is C02's subject).
type c07Capture struct {
	got []byte
	ok  bool
}

func (c *c07Capture) DecodeTTLV(d *Decoder) error {
	r, ok := d.r.(*ttlvReader)
	if !ok {
		return errors.New("not a binary reader")
	}
	c.got = r.buf
	c.ok = true
	return nil
}

func c07ValidType(data []byte) {
	verifAssume(data[3] >= 1 && data[3] <= 10)
}

func c07Padded(l int) int { return (l + 7) / 8 * 8 }

// VerifC07_Recv: one message of exactly total bytes (header announces a length
// L with 8+padded(L) == total, all bytes symbolic), followed by tail extra
// bytes of a next message; at most k reads of arbitrary sizes.
func VerifC07_Recv(total, tail, k int) {
	data := verifNondetBytes("d", total+tail)
	L := refBE32(data[4:8])
	verifAssume(L >= 0 && 8+c07Padded(L) == total)
	rw := &c07RW{data: data, maxReads: k, limit: total, endOfData: true, faultAfter: -1}
	c07ValidType(data)
	s := NewStream(rw, 0)
	var got c07Capture
	err := s.Recv(&got)
	verifAssert("never-offered-bytes-of-next-message", !rw.overOffer)
	verifAssert("complete-message-is-received", err == nil && got.ok)
	verifAssert("consumed-exactly-the-message", rw.pos == total)
	if err == nil && got.ok {
		verifReach("received")
		verifAssert("decoder-gets-exactly-the-message-bytes", verifBytesEq(got.got, data[:total]))
	}
}

// VerifC07_Truncated: the stream ends (EOF or zero read) after cut < total bytes.
func VerifC07_Truncated(total, cut, k, eof int) {
	data := verifNondetBytes("d", total)
	L := refBE32(data[4:8])
	verifAssume(L >= 0 && 8+c07Padded(L) == total)
	c07ValidType(data)
	rw := &c07RW{data: data[:cut], maxReads: k, limit: total, endOfData: eof == 1, faultAfter: -1}
	s := NewStream(rw, 0)
	var got c07Capture
	err := s.Recv(&got)
	verifAssert("truncated-stream-is-an-error", err != nil)
	verifAssert("never-offered-beyond-message", !rw.overOffer)
}

// VerifC07_Fault: a read fails at index f.
func VerifC07_Fault(total, k, f int) {
	data := verifNondetBytes("d", total)
	L := refBE32(data[4:8])
	verifAssume(L >= 0 && 8+c07Padded(L) == total)
	c07ValidType(data)
	rw := &c07RW{data: data, maxReads: k, limit: total, endOfData: true, faultAfter: f}
	s := NewStream(rw, 0)
	var got c07Capture
	err := s.Recv(&got)
	if rw.reads > f {
		verifAssert("fault-is-an-error", err != nil)
	}
	verifAssert("never-offered-beyond-message", !rw.overOffer)
}

// VerifC07_Limit: the header announces more than the configured maximum: the
// message is rejected and nothing beyond the initial buffer was allocated.
func VerifC07_Limit(k int) {
	hdr := verifNondetBytes("h", 8)
	max := verifNondetInt("max")
	verifAssume(max > 0 && max <= 1<<20)
	L := refBE32(hdr[4:8])
	need := 8 + c07Padded(L)
	verifAssume(L >= 0 && need > max)
	body := verifNondetBytes("body", 24)
	rw := &c07RW{data: append(hdr, body...), maxReads: k, limit: 1 << 40, endOfData: true, faultAfter: -1, bufLimit: 512}
	verifAllocLimit("rejected-without-buffering", 512)
	s := NewStream(rw, max)
	var got c07Capture
	err := s.Recv(&got)
	verifAssert("oversized-announcement-rejected", err != nil)
	verifAssert("rejected-before-reading-the-body", rw.pos <= 8)
	verifAssert("rejected-without-buffering", verifMaxAlloc() <= 512)
	verifAssert("rejected-with-the-size-error", IsErrEncoding(err))
}

// VerifC07_LimitOK: announced size within the limit is accepted as usual.
func VerifC07_LimitOK(total, k int) {
	data := verifNondetBytes("d", total)
	L := refBE32(data[4:8])
	verifAssume(L >= 0 && 8+c07Padded(L) == total)
	max := verifNondetInt("max")
	verifAssume(max >= total && max <= 1<<20)
	c07ValidType(data)
	rw := &c07RW{data: data, maxReads: k, limit: total, endOfData: false, faultAfter: -1}
	s := NewStream(rw, max)
	var got c07Capture
	err := s.Recv(&got)
	verifAssert("within-limit-accepted", err == nil && got.ok)
	verifAssert("consumed-exactly-the-message", rw.pos == total)
}

// VerifC07_TwoMessages: two consecutive messages; the second Recv starts at
// the first byte of the second message.
func VerifC07_TwoMessages(t1, t2, k int) {
	data := verifNondetBytes("d", t1+t2)
	L1 := refBE32(data[4:8])
	verifAssume(L1 >= 0 && 8+c07Padded(L1) == t1)
	L2 := refBE32(data[t1+4 : t1+8])
	verifAssume(L2 >= 0 && 8+c07Padded(L2) == t2)
	c07ValidType(data)
	c07ValidType(data[t1:])
	rw := &c07RW{data: data, maxReads: k, limit: t1, endOfData: false, faultAfter: -1}
	s := NewStream(rw, 0)
	var g1, g2 c07Capture
	e1 := s.Recv(&g1)
	verifAssert("first: received", e1 == nil && g1.ok)
	verifAssert("first: consumed exactly", rw.pos == t1 && !rw.overOffer)
	if e1 == nil && g1.ok {
		verifAssert("first: exact bytes", verifBytesEq(g1.got, data[:t1]))
	}
	rw.limit = t1 + t2
	e2 := s.Recv(&g2)
	verifAssert("second: received", e2 == nil && g2.ok)
	verifAssert("second: consumed exactly", rw.pos == t1+t2 && !rw.overOffer)
	if e2 == nil && g2.ok {
		verifAssert("second: exact bytes", verifBytesEq(g2.got, data[t1:]))
	}
}
