package ttlv

// C03 — binary encoder output conforms to the KMIP TTLV wire format.
// The reference parser/generator below are written from KMIP 1.4 §9.1 and share
// no code with the library.

import (
	"math/big"
	"time"
)

type refItem struct {
	tag    int
	typ    byte
	length int
	val    []byte
	kids   []refItem
}

func refBE32(b []byte) int {
	return int(b[0])<<24 | int(b[1])<<16 | int(b[2])<<8 | int(b[3])
}

// refParse parses one TTLV item at the start of b. ok=false if b does not
// start with a well-formed item.
func refParse(b []byte, depth int) (it refItem, n int, ok bool) {
	if len(b) < 8 || depth > 8 {
		return it, 0, false
	}
	it.tag = int(b[0])<<16 | int(b[1])<<8 | int(b[2])
	it.typ = b[3]
	it.length = refBE32(b[4:8])
	if it.typ < 1 || it.typ > 10 {
		return it, 0, false
	}
	padded := (it.length + 7) / 8 * 8
	if it.length < 0 || len(b)-8 < padded {
		return it, 0, false
	}
	it.val = b[8 : 8+it.length]
	for _, p := range b[8+it.length : 8+padded] {
		if p != 0 {
			return it, 0, false
		}
	}
	switch it.typ {
	case 2, 5, 10: // Integer, Enumeration, Interval
		if it.length != 4 {
			return it, 0, false
		}
	case 3, 6, 9: // LongInteger, Boolean, DateTime
		if it.length != 8 {
			return it, 0, false
		}
	case 4: // BigInteger
		if it.length%8 != 0 {
			return it, 0, false
		}
	case 1:
		rest := it.val
		for len(rest) > 0 {
			k, kn, kok := refParse(rest, depth+1)
			if !kok {
				return it, 0, false
			}
			it.kids = append(it.kids, k)
			rest = rest[kn:]
		}
	}
	return it, 8 + padded, true
}

func refHeader(tag int, typ byte, length int) []byte {
	return []byte{byte(tag >> 16), byte(tag >> 8), byte(tag), typ, byte(length >> 24), byte(length >> 16), byte(length >> 8), byte(length)}
}

func refGenPadded(tag int, typ byte, val []byte) []byte {
	out := refHeader(tag, typ, len(val))
	out = append(out, val...)
	for len(out)%8 != 0 {
		out = append(out, 0)
	}
	return out
}

func verifTag(name string) int {
	tag := verifNondetInt(name)
	verifAssume(tag > 0 && tag <= 0xFFFFFF)
	return tag
}

// checkTop asserts the framing of a single top-level item.
func c03CheckTop(out []byte, tag int, typ byte, length int) (refItem, bool) {
	it, n, ok := refParse(out, 0)
	verifAssert("wellformed", ok)
	if !ok {
		return it, false
	}
	verifAssert("consumed-all", n == len(out))
	verifAssert("tag", it.tag == tag)
	verifAssert("type", it.typ == typ)
	verifAssert("length", it.length == length)
	return it, true
}

func VerifC03_Integer() {
	tag := verifTag("tag")
	v := verifNondetInt32("v")
	out := MarshalTTLV(Value{Tag: tag, Value: v})
	verifObserveBytes("out", out)
	it, ok := c03CheckTop(out, tag, 2, 4)
	if !ok {
		return
	}
	verifAssert("value", int32(uint32(refBE32(it.val))) == v)
}

func VerifC03_Long() {
	tag := verifTag("tag")
	v := verifNondetInt64("v")
	out := MarshalTTLV(Value{Tag: tag, Value: v})
	verifObserveBytes("out", out)
	it, ok := c03CheckTop(out, tag, 3, 8)
	if !ok {
		return
	}
	got := int64(uint64(refBE32(it.val[0:4]))<<32 | uint64(uint32(refBE32(it.val[4:8]))))
	verifAssert("value", got == v)
}

func VerifC03_Enum() {
	tag := verifTag("tag")
	v := verifNondetUint32("v")
	out := MarshalTTLV(Value{Tag: tag, Value: Enum(v)})
	verifObserveBytes("out", out)
	it, ok := c03CheckTop(out, tag, 5, 4)
	if !ok {
		return
	}
	verifAssert("value", uint32(refBE32(it.val)) == v)
}

func VerifC03_Bool() {
	tag := verifTag("tag")
	v := verifNondetBool("v")
	out := MarshalTTLV(Value{Tag: tag, Value: v})
	verifObserveBytes("out", out)
	it, ok := c03CheckTop(out, tag, 6, 8)
	if !ok {
		return
	}
	hi := refBE32(it.val[0:4])
	lo := refBE32(it.val[4:8])
	verifAssert("value", hi == 0 && (lo == 1) == v && (lo == 0) == !v)
}

func VerifC03_DateTime() {
	tag := verifTag("tag")
	sec := verifNondetInt64("sec")
	out := MarshalTTLV(Value{Tag: tag, Value: time.Unix(sec, 0)})
	verifObserveBytes("out", out)
	it, ok := c03CheckTop(out, tag, 9, 8)
	if !ok {
		return
	}
	got := int64(uint64(refBE32(it.val[0:4]))<<32 | uint64(uint32(refBE32(it.val[4:8]))))
	verifAssert("value", got == sec)
}

func VerifC03_Interval() {
	tag := verifTag("tag")
	sec := verifNondetUint32("sec")
	out := MarshalTTLV(Value{Tag: tag, Value: time.Duration(sec) * time.Second})
	verifObserveBytes("out", out)
	it, ok := c03CheckTop(out, tag, 10, 4)
	if !ok {
		return
	}
	verifAssert("value", uint32(refBE32(it.val)) == sec)
}

func VerifC03_TextString(n int) {
	tag := verifTag("tag")
	s := verifNondetString("s", n)
	out := MarshalTTLV(Value{Tag: tag, Value: s})
	verifObserveBytes("out", out)
	it, ok := c03CheckTop(out, tag, 7, n)
	if !ok {
		return
	}
	verifAssert("value", string(it.val) == s)
}

func VerifC03_ByteString(n int) {
	tag := verifTag("tag")
	s := verifNondetBytes("s", n)
	out := MarshalTTLV(Value{Tag: tag, Value: s})
	verifObserveBytes("out", out)
	it, ok := c03CheckTop(out, tag, 8, n)
	if !ok {
		return
	}
	verifAssert("value", verifBytesEq(it.val, s))
}

// refTwos gives the two's complement big-endian encoding of (neg, mag) on
// exactly L bytes (L >= len(mag)); independent byte-wise carry arithmetic.
func refTwos(neg bool, mag []byte, L int) []byte {
	exp := make([]byte, L)
	copy(exp[L-len(mag):], mag)
	if neg {
		carry := uint16(1)
		for i := L - 1; i >= 0; i-- {
			x := uint16(^exp[i]) + carry
			exp[i] = byte(x)
			carry = x >> 8
		}
	}
	return exp
}

func verifBigInt(name string, neg bool, n int) (*big.Int, []byte) {
	mag := verifNondetBytes(name, n)
	if n > 0 {
		verifAssume(mag[0] != 0)
	}
	v := new(big.Int).SetBytes(append([]byte(nil), mag...))
	if neg {
		v.Neg(v)
	}
	return v, mag
}

// VerifC03_BigInteger: sign 0 = non-negative, 1 = negative; n = magnitude bytes.
func VerifC03_BigInteger(sign, n int) {
	if sign == 1 && n == 0 {
		return
	}
	tag := verifTag("tag")
	v, mag := verifBigInt("mag", sign == 1, n)
	out := MarshalTTLV(Value{Tag: tag, Value: v})
	verifObserveBytes("out", out)
	it, _, ok := refParse(out, 0)
	verifAssert("wellformed", ok)
	if !ok {
		return
	}
	verifAssert("tag", it.tag == tag)
	verifAssert("type", it.typ == 4)
	verifAssert("length-multiple-of-8", it.length%8 == 0 && it.length >= 8 && it.length >= n)
	verifAssert("total", len(out) == 8+it.length)
	if it.length < n || it.length%8 != 0 || it.length < 8 {
		return
	}
	exp := refTwos(sign == 1, mag, it.length)
	verifAssert("value", verifBytesEq(it.val, exp))
	// the sign bit of the encoding must agree with the sign of the value
	verifAssert("sign-bit", (it.val[0]&0x80 != 0) == (sign == 1))
}

// ---------------------------------------------------------------------------
// structures

// c03Leaf builds leaf number k of kind (k mod 9) with symbolic content.
func c03Leaf(k int, pfx string) (Value, byte) {
	tag := verifTag(pfx + ".tag")
	switch k % 9 {
	case 0:
		return Value{Tag: tag, Value: verifNondetInt32(pfx + ".v")}, 2
	case 1:
		return Value{Tag: tag, Value: verifNondetInt64(pfx + ".v")}, 3
	case 2:
		return Value{Tag: tag, Value: Enum(verifNondetUint32(pfx + ".v"))}, 5
	case 3:
		return Value{Tag: tag, Value: verifNondetBool(pfx + ".v")}, 6
	case 4:
		return Value{Tag: tag, Value: verifNondetString(pfx+".v", 3)}, 7
	case 5:
		return Value{Tag: tag, Value: verifNondetBytes(pfx+".v", 9)}, 8
	case 6:
		return Value{Tag: tag, Value: time.Unix(verifNondetInt64(pfx+".v"), 0)}, 9
	case 7:
		return Value{Tag: tag, Value: time.Duration(verifNondetUint32(pfx+".v")) * time.Second}, 10
	default:
		v, _ := verifBigInt(pfx+".v", true, 8)
		return Value{Tag: tag, Value: v}, 4
	}
}

// VerifC03_Struct: shape encodes (nkids 0..3, first leaf kind, nested 0/1/2):
// nested=1 wraps the children in one more structure level, nested=2 in two.
func VerifC03_Struct(nkids, kind, nested int) {
	tag := verifTag("tag")
	var kids Struct
	var types []byte
	for i := 0; i < nkids; i++ {
		v, ty := c03Leaf(kind+i, "k"+string(rune('0'+i)))
		kids = append(kids, v)
		types = append(types, ty)
	}
	inner := Value{Tag: tag, Value: kids}
	top := inner
	depth := 0
	for d := 0; d < nested; d++ {
		t2 := verifTag("wrap" + string(rune('0'+d)))
		top = Value{Tag: t2, Value: Struct{top, Value{Tag: t2, Value: Struct{}}}}
		depth++
	}
	out := MarshalTTLV(top)
	verifObserveBytes("out", out)
	it, n, ok := refParse(out, 0)
	verifAssert("wellformed", ok)
	if !ok {
		return
	}
	verifAssert("consumed-all", n == len(out))
	verifAssert("struct-length", it.length == len(out)-8 && it.typ == 1)
	for d := 0; d < depth; d++ {
		verifAssert("wrap-kids", len(it.kids) == 2 && it.kids[1].typ == 1 && it.kids[1].length == 0)
		if len(it.kids) != 2 {
			return
		}
		it = it.kids[0]
	}
	verifAssert("tag", it.tag == tag && it.typ == 1)
	verifAssert("kid-count", len(it.kids) == nkids)
	if len(it.kids) != nkids {
		return
	}
	sum := 0
	for i, k := range it.kids {
		verifAssert("kid-type", k.typ == types[i])
		verifAssert("kid-tag", k.tag == kids[i].Tag)
		sum += 8 + (k.length+7)/8*8
	}
	verifAssert("length-is-sum-of-padded-children", it.length == sum)
}

// ---------------------------------------------------------------------------
// reverse direction: reference generator -> real decoder

func VerifC03_GenDecode(kind, n int) {
	tag := verifTag("tag")
	var enc []byte
	var want any
	switch kind {
	case 0:
		v := verifNondetInt32("v")
		enc = refGenPadded(tag, 2, []byte{byte(v >> 24), byte(v >> 16), byte(v >> 8), byte(v)})
		want = v
	case 1:
		v := verifNondetInt64("v")
		enc = refGenPadded(tag, 3, []byte{byte(v >> 56), byte(v >> 48), byte(v >> 40), byte(v >> 32), byte(v >> 24), byte(v >> 16), byte(v >> 8), byte(v)})
		want = v
	case 2:
		v := verifNondetUint32("v")
		enc = refGenPadded(tag, 5, []byte{byte(v >> 24), byte(v >> 16), byte(v >> 8), byte(v)})
		want = Enum(v)
	case 3:
		v := verifNondetBool("v")
		b := byte(0)
		if v {
			b = 1
		}
		enc = refGenPadded(tag, 6, []byte{0, 0, 0, 0, 0, 0, 0, b})
		want = v
	case 4:
		s := verifNondetString("v", n)
		enc = refGenPadded(tag, 7, []byte(s))
		want = s
	case 5:
		s := verifNondetBytes("v", n)
		enc = refGenPadded(tag, 8, s)
		want = s
	case 6:
		v := verifNondetInt64("v")
		enc = refGenPadded(tag, 9, []byte{byte(v >> 56), byte(v >> 48), byte(v >> 40), byte(v >> 32), byte(v >> 24), byte(v >> 16), byte(v >> 8), byte(v)})
		want = v
	case 7:
		v := verifNondetUint32("v")
		enc = refGenPadded(tag, 10, []byte{byte(v >> 24), byte(v >> 16), byte(v >> 8), byte(v)})
		want = v
	}
	verifObserveBytes("enc", enc)
	var got Value
	err := UnmarshalTTLV(enc, &got)
	verifAssert("decodes", err == nil)
	if err != nil {
		return
	}
	verifAssert("tag", got.Tag == tag)
	switch w := want.(type) {
	case int32:
		g, ok := got.Value.(int32)
		verifAssert("value", ok && g == w)
	case int64:
		if kind == 6 {
			g, ok := got.Value.(time.Time)
			verifAssert("value", ok && g.Unix() == w)
		} else {
			g, ok := got.Value.(int64)
			verifAssert("value", ok && g == w)
		}
	case Enum:
		g, ok := got.Value.(Enum)
		verifAssert("value", ok && g == w)
	case bool:
		g, ok := got.Value.(bool)
		verifAssert("value", ok && g == w)
	case string:
		g, ok := got.Value.(string)
		verifAssert("value", ok && g == w)
	case []byte:
		g, ok := got.Value.([]byte)
		verifAssert("value", ok && verifBytesEq(g, w))
	case uint32:
		g, ok := got.Value.(time.Duration)
		verifAssert("value", ok && g == time.Duration(w)*time.Second)
	}
}

// VerifC03_GenDecodeBig: reference two's complement encoding on L = 8*(n/8+1)
// bytes (and, with extra=1, one more sign-extension block) decodes to the value.
func VerifC03_GenDecodeBig(sign, n, extra int) {
	if sign == 1 && n == 0 {
		return
	}
	tag := verifTag("tag")
	v, mag := verifBigInt("mag", sign == 1, n)
	L := (n/8 + 1) * 8
	if n > 0 && n%8 == 0 {
		// exactly on a boundary: the top bit decides whether another block is needed
		if sign == 0 {
			verifAssume(mag[0]&0x80 == 0)
		} else {
			// -x fits in n bytes iff x <= 2^(8n-1); keep it simple: require top bit clear
			verifAssume(mag[0]&0x80 == 0)
		}
		L = n
	}
	L += 8 * extra
	enc := refGenPadded(tag, 4, refTwos(sign == 1, mag, L))
	verifObserveBytes("enc", enc)
	var got Value
	err := UnmarshalTTLV(enc, &got)
	verifAssert("decodes", err == nil)
	if err != nil {
		return
	}
	g, ok := got.Value.(*big.Int)
	verifAssert("is-bigint", ok && g != nil)
	if !ok || g == nil {
		return
	}
	verifAssert("value", g.Cmp(v) == 0)
}

// VerifC03_LargeStruct: a structure nested in a structure holding one byte
// string of n bytes (first and last byte symbolic, the rest zero) followed by an
// integer: the back-patched structure lengths must be right whatever buffer
// growth happens while the structures are open (n is chosen around the usual
// buffer size boundaries).
func VerifC03_LargeStruct(n int) {
	tag := verifTag("tag")
	payload := make([]byte, n)
	if n > 0 {
		payload[0] = verifNondetUint8("first")
		payload[n-1] = verifNondetUint8("last")
	}
	v := verifNondetInt32("v")
	inner := Value{Tag: 0x420002, Value: Struct{Value{Tag: 0x420003, Value: payload}, Value{Tag: 0x420004, Value: v}}}
	top := Value{Tag: tag, Value: Struct{inner, Value{Tag: 0x420005, Value: v}}}
	out := MarshalTTLV(top)
	padded := (n + 7) / 8 * 8
	innerLen := 8 + padded + 16
	verifAssert("total size", len(out) == 8+8+innerLen+16)
	if len(out) != 8+8+innerLen+16 {
		return
	}
	verifAssert("outer structure length", refBE32(out[4:8]) == len(out)-8 && out[3] == 1)
	verifAssert("inner structure length", refBE32(out[12:16]) == innerLen && out[11] == 1)
	verifAssert("byte string header", refBE32(out[20:24]) == n && out[19] == 8)
	if n > 0 {
		verifAssert("byte string content", out[24] == payload[0] && out[24+n-1] == payload[n-1])
	}
	var back Value
	err := UnmarshalTTLV(append([]byte(nil), out...), &back)
	verifAssert("decodes", err == nil)
	if err == nil {
		verifAssert("round trip", valueEq(back, top))
	}
}
