package ttlv

// C04 — XML and JSON encodings are interchangeable with binary TTLV:
// item-level lexical round trips, per type and per text encoding, through the
// real writer and the real reader. The tokenisers of encoding/json and
// encoding/xml are not executed symbolically: in the executor the value token is
// cut out of the writer's output and converted by a reference implementation of
// the relevant grammar (RFC 8259 strings and numbers, XML 1.0 attribute values)
// into what the tokeniser hands to the reader; in a native replay the real
// tokenisers are used on the same output.

import (
	"encoding/json"
	"encoding/xml"
	"math/big"
	"time"
	"unicode/utf8"
)

// ---------------------------------------------------------------------------
// reference grammars

func refHexVal(c byte) (byte, bool) {
	switch {
	case c >= '0' && c <= '9':
		return c - '0', true
	case c >= 'a' && c <= 'f':
		return c - 'a' + 10, true
	case c >= 'A' && c <= 'F':
		return c - 'A' + 10, true
	}
	return 0, false
}

func refUTF8(r rune) []byte {
	switch {
	case r < 0x80:
		return []byte{byte(r)}
	case r < 0x800:
		return []byte{0xC0 | byte(r>>6), 0x80 | byte(r)&0x3F}
	case r < 0x10000:
		return []byte{0xE0 | byte(r>>12), 0x80 | byte(r>>6)&0x3F, 0x80 | byte(r)&0x3F}
	}
	return []byte{0xF0 | byte(r>>18), 0x80 | byte(r>>12)&0x3F, 0x80 | byte(r>>6)&0x3F, 0x80 | byte(r)&0x3F}
}

// refJSONString parses a complete JSON string literal (RFC 8259 §7).
func refJSONString(tok []byte) (string, bool) {
	if len(tok) < 2 || tok[0] != '"' || tok[len(tok)-1] != '"' {
		return "", false
	}
	body := tok[1 : len(tok)-1]
	var out []byte
	for i := 0; i < len(body); i++ {
		c := body[i]
		if c == '"' || c < 0x20 {
			return "", false
		}
		if c != '\\' {
			out = append(out, c)
			continue
		}
		i++
		if i >= len(body) {
			return "", false
		}
		switch body[i] {
		case '"', '\\', '/':
			out = append(out, body[i])
		case 'b':
			out = append(out, '\b')
		case 'f':
			out = append(out, '\f')
		case 'n':
			out = append(out, '\n')
		case 'r':
			out = append(out, '\r')
		case 't':
			out = append(out, '\t')
		case 'u':
			if i+4 >= len(body) {
				return "", false
			}
			var r rune
			for k := 1; k <= 4; k++ {
				h, ok := refHexVal(body[i+k])
				if !ok {
					return "", false
				}
				r = r<<4 | rune(h)
			}
			i += 4
			if r >= 0xD800 && r < 0xDC00 {
				// high surrogate: must be followed by \uDC00..DFFF
				if i+6 >= len(body) {
					return "", false
				}
				if body[i+1] != '\\' || body[i+2] != 'u' {
					return "", false
				}
				var lo rune
				for k := 3; k <= 6; k++ {
					h, ok := refHexVal(body[i+k])
					if !ok {
						return "", false
					}
					lo = lo<<4 | rune(h)
				}
				if lo < 0xDC00 || lo > 0xDFFF {
					return "", false
				}
				i += 6
				r = 0x10000 + (r-0xD800)<<10 + (lo - 0xDC00)
			} else if r >= 0xDC00 && r <= 0xDFFF {
				return "", false
			}
			out = append(out, refUTF8(r)...)
		default:
			return "", false
		}
	}
	return string(out), true
}

// refJSONInt: -?(0|[1-9][0-9]*)
func refJSONInt(tok []byte) bool {
	i := 0
	if len(tok) > 0 && tok[0] == '-' {
		i = 1
	}
	if i >= len(tok) {
		return false
	}
	if tok[i] == '0' {
		return i+1 == len(tok)
	}
	for ; i < len(tok); i++ {
		if tok[i] < '0' || tok[i] > '9' {
			return false
		}
	}
	return true
}

// refXMLAttr un-escapes an attribute value written between double quotes
// (XML 1.0 §2.4, §4.1, §4.6): no '<', no '"', '&' only as a reference.
func refXMLAttr(v []byte) (string, bool) {
	var out []byte
	for i := 0; i < len(v); i++ {
		c := v[i]
		if c == '<' || c == '"' {
			return "", false
		}
		if c != '&' {
			out = append(out, c)
			continue
		}
		j := i + 1
		for j < len(v) && v[j] != ';' {
			j++
		}
		if j >= len(v) {
			return "", false
		}
		ref := string(v[i+1 : j])
		switch ref {
		case "lt":
			out = append(out, '<')
		case "gt":
			out = append(out, '>')
		case "amp":
			out = append(out, '&')
		case "quot":
			out = append(out, '"')
		case "apos":
			out = append(out, '\'')
		default:
			if len(ref) < 2 || ref[0] != '#' {
				return "", false
			}
			var r rune
			if ref[1] == 'x' {
				if len(ref) < 3 {
					return "", false
				}
				for k := 2; k < len(ref); k++ {
					h, ok := refHexVal(ref[k])
					if !ok {
						return "", false
					}
					r = r<<4 | rune(h)
				}
			} else {
				for k := 1; k < len(ref); k++ {
					if ref[k] < '0' || ref[k] > '9' {
						return "", false
					}
					r = r*10 + rune(ref[k]-'0')
				}
			}
			// Char production
			if !(r == 0x9 || r == 0xA || r == 0xD || r >= 0x20 && r <= 0xD7FF || r >= 0xE000 && r <= 0xFFFD || r >= 0x10000 && r <= 0x10FFFF) {
				return "", false
			}
			out = append(out, refUTF8(r)...)
		}
		i = j
	}
	return string(out), true
}

// ---------------------------------------------------------------------------
// from writer output to a reader positioned on the item

func c04Prefix(b []byte, p string) bool {
	return len(b) >= len(p) && string(b[:len(p)]) == p
}

// c04JSONReader: out is the JSON writer's output for one leaf item.
func c04JSONReader(out []byte, tag int, ty Type) (*jsonReader, bool) {
	if !verifSymbolic() {
		r, err := newJSONReader(append([]byte(nil), out...))
		return r, err == nil
	}
	prefix := `{"tag": "` + TagString(tag) + `", "type": "` + ty.String() + `", "value": `
	if !c04Prefix(out, prefix) || len(out) < len(prefix)+2 || out[len(out)-1] != '}' {
		return nil, false
	}
	tok := out[len(prefix) : len(out)-1]
	var val any
	switch {
	case tok[0] == '"':
		s, ok := refJSONString(tok)
		if !ok {
			return nil, false
		}
		val = s
	case string(tok) == "true":
		val = true
	case string(tok) == "false":
		val = false
	default:
		if !refJSONInt(tok) {
			return nil, false
		}
		val = json.Number(string(tok))
	}
	return &jsonReader{value: []any{map[string]any{"tag": TagString(tag), "type": ty.String(), "value": val}}}, true
}

// c04XMLReader: out is the XML writer's output for one leaf item:
// <Name type="T" value="V"/> or <TTLV tag="0x.." type="T" value="V"/>
func c04XMLReader(out []byte, tag int, ty Type) (*xmlReader, bool) {
	if !verifSymbolic() {
		r, err := newXMLReader(append([]byte(nil), out...))
		return r, err == nil
	}
	name := getTagName(tag)
	prefix := "<" + name
	if name == "" {
		name = "TTLV"
		prefix = `<TTLV tag="` + TagString(tag) + `"`
	}
	prefix += ` type="` + ty.String() + `" value="`
	suffix := `"/>`
	if !c04Prefix(out, prefix) || len(out) < len(prefix)+len(suffix) || string(out[len(out)-len(suffix):]) != suffix {
		return nil, false
	}
	v, ok := refXMLAttr(out[len(prefix) : len(out)-len(suffix)])
	if !ok {
		return nil, false
	}
	el := xml.StartElement{Name: xml.Name{Local: name}}
	if name == "TTLV" {
		el.Attr = append(el.Attr, xml.Attr{Name: xml.Name{Local: "tag"}, Value: TagString(tag)})
	}
	el.Attr = append(el.Attr, xml.Attr{Name: xml.Name{Local: "type"}, Value: ty.String()}, xml.Attr{Name: xml.Name{Local: "value"}, Value: v})
	return &xmlReader{r: &xml.Decoder{}, elem: &el}, true
}

func c04Writer(enc int) writer {
	if enc == 0 {
		return newJSONWriter()
	}
	return newXMLWriter()
}

func c04Reader(enc int, out []byte, tag int, ty Type) (reader, bool) {
	if enc == 0 {
		r, ok := c04JSONReader(out, tag, ty)
		return r, ok
	}
	r, ok := c04XMLReader(out, tag, ty)
	return r, ok
}

const c04Tag = 0x420020 // CompromiseDate: a registered, type-neutral tag

// VerifC04_Integer etc.: enc 0 = JSON, 1 = XML.
func VerifC04_Integer(enc int) {
	v := verifNondetInt32("v")
	w := c04Writer(enc)
	w.Integer(c04Tag, v)
	out := w.Bytes()
	verifObserveBytes("text", out)
	r, ok := c04Reader(enc, out, c04Tag, TypeInteger)
	verifAssert("well-formed", ok)
	if !ok {
		return
	}
	got, err := r.Integer(c04Tag)
	verifAssert("read back", err == nil && got == v)
}

// digits: restricts |v| to numbers of that many decimal digits (0: no restriction
// beyond the JSON hex threshold side given by big).
func VerifC04_Long(enc, big int) {
	v := verifNondetInt64("v")
	if big == 1 {
		verifAssume(v >= 1<<52 || v <= -(1<<52))
	} else {
		verifAssume(v < 1<<52 && v > -(1<<52))
	}
	w := c04Writer(enc)
	w.LongInteger(c04Tag, v)
	out := w.Bytes()
	verifObserveBytes("text", out)
	r, ok := c04Reader(enc, out, c04Tag, TypeLongInteger)
	verifAssert("well-formed", ok)
	if !ok {
		return
	}
	got, err := r.LongInteger(c04Tag)
	verifAssert("read back", err == nil && got == v)
}

func VerifC04_Bool(enc int) {
	v := verifNondetBool("v")
	w := c04Writer(enc)
	w.Bool(c04Tag, v)
	out := w.Bytes()
	verifObserveBytes("text", out)
	r, ok := c04Reader(enc, out, c04Tag, TypeBoolean)
	verifAssert("well-formed", ok)
	if !ok {
		return
	}
	got, err := r.Bool(c04Tag)
	verifAssert("read back", err == nil && got == v)
}

func VerifC04_Interval(enc int) {
	sec := verifNondetUint32("sec")
	w := c04Writer(enc)
	w.Interval(c04Tag, time.Duration(sec)*time.Second)
	out := w.Bytes()
	verifObserveBytes("text", out)
	r, ok := c04Reader(enc, out, c04Tag, TypeInterval)
	verifAssert("well-formed", ok)
	if !ok {
		return
	}
	got, err := r.Interval(c04Tag)
	verifAssert("read back", err == nil && got == time.Duration(sec)*time.Second)
}

func VerifC04_DateTime(enc int) {
	sec := verifNondetInt64("sec")
	// years 1..9999
	verifAssume(sec >= -62135596800 && sec <= 253402300799)
	w := c04Writer(enc)
	w.DateTime(c04Tag, time.Unix(sec, 0).UTC())
	out := w.Bytes()
	r, ok := c04Reader(enc, out, c04Tag, TypeDateTime)
	verifAssert("well-formed", ok)
	if !ok {
		return
	}
	got, err := r.DateTime(c04Tag)
	verifAssert("read back", err == nil && got.Unix() == sec)
}

func VerifC04_ByteString(enc, n int) {
	v := verifNondetBytes("v", n)
	w := c04Writer(enc)
	w.ByteString(c04Tag, v)
	out := w.Bytes()
	verifObserveBytes("text", out)
	r, ok := c04Reader(enc, out, c04Tag, TypeByteString)
	verifAssert("well-formed", ok)
	if !ok {
		return
	}
	got, err := r.ByteString(c04Tag)
	verifAssert("read back", err == nil && verifBytesEq(got, v))
}

func VerifC04_BigInteger(enc, sign, n int) {
	if sign == 1 && n == 0 {
		return
	}
	v, _ := verifBigInt("mag", sign == 1, n)
	want := new(big.Int).Set(v)
	w := c04Writer(enc)
	w.BigInteger(c04Tag, v)
	out := w.Bytes()
	verifObserveBytes("text", out)
	r, ok := c04Reader(enc, out, c04Tag, TypeBigInteger)
	verifAssert("well-formed", ok)
	if !ok {
		return
	}
	got, err := r.BigInteger(c04Tag)
	verifAssert("read back", err == nil && got != nil && got.Cmp(want) == 0)
}

// VerifC04_Enum: enumeration number idx of the registry (sorted by tag), value
// arbitrary (registered names and the hex fallback).
func VerifC04_Enum(enc, idx int) {
	tags := c17SortedEnumTags()
	if idx >= len(tags) {
		return
	}
	etag := tags[idx]
	v := verifNondetUint32("v")
	w := c04Writer(enc)
	w.Enum(etag, c04Tag, v)
	out := w.Bytes()
	verifObserveBytes("text", out)
	r, ok := c04Reader(enc, out, c04Tag, TypeEnumeration)
	verifAssert("well-formed", ok)
	if !ok {
		return
	}
	got, err := r.Enum(etag, c04Tag)
	verifAssert("read back", err == nil && got == v)
}

// VerifC04_Bitmask: mask number idx (or an unregistered mask tag for idx 2);
// value = 0, all ones, or bits i and j (i == j: a single bit).
func VerifC04_Bitmask(enc, idx, i, j int) {
	var mtags []int
	for tag := range bitmaskNames {
		if tag >= 0x420000 {
			mtags = append(mtags, tag)
		}
	}
	// sorted
	for a := 0; a < len(mtags); a++ {
		for b := a + 1; b < len(mtags); b++ {
			if mtags[b] < mtags[a] {
				mtags[a], mtags[b] = mtags[b], mtags[a]
			}
		}
	}
	mtag := 0x420099 // not a registered mask
	if idx < len(mtags) {
		mtag = mtags[idx]
	}
	var v int32
	switch {
	case i < 0:
		v = 0
	case i > 31:
		v = -1
	default:
		v = int32(uint32(1)<<uint(i) | uint32(1)<<uint(j))
	}
	w := c04Writer(enc)
	w.Bitmask(mtag, c04Tag, v)
	out := w.Bytes()
	verifObserveBytes("text", out)
	r, ok := c04Reader(enc, out, c04Tag, TypeInteger)
	verifAssert("well-formed", ok)
	if !ok {
		return
	}
	got, err := r.Bitmask(mtag, c04Tag)
	verifAssert("read back", err == nil && got == v)
}

// VerifC04_TextString: n arbitrary bytes forming valid UTF-8 (XML: characters of
// the XML Char production only — "representable in the target format").
func VerifC04_TextString(enc, n int) {
	b := verifNondetBytes("s", n)
	s := string(b)
	verifAssume(utf8.ValidString(s))
	if enc == 1 {
		for _, r := range s {
			verifAssume(r == 0x9 || r == 0xA || r == 0xD || r >= 0x20 && r <= 0xD7FF || r >= 0xE000 && r <= 0xFFFD || r >= 0x10000)
		}
	}
	w := c04Writer(enc)
	w.TextString(c04Tag, s)
	out := w.Bytes()
	verifObserveBytes("text", out)
	r, ok := c04Reader(enc, out, c04Tag, TypeTextString)
	verifAssert("well-formed", ok)
	if !ok {
		return
	}
	got, err := r.TextString(c04Tag)
	verifAssert("read back", err == nil && got == s)
}
