package ttlv

import (
	"math/big"
	"time"
	"unicode/utf8"
)

func utf8ValidString(s string) bool { return utf8.ValidString(s) }

func c18TypeOfOther(v Value) Type {
	switch v.Value.(type) {
	case *big.Int:
		return TypeBigInteger
	case time.Time:
		return TypeDateTime
	case time.Duration:
		return TypeInterval
	}
	return Type(0)
}
