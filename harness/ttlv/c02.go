package ttlv

// C02 — decoders never panic, hang, over-read or mutate on arbitrary input
// (binary reader, generic *Value target), and C18 binary fixed point.

import (
	"math/big"
	"time"
)

// refExtent parses b leniently: only the structural rules that bound what an
// item may contain (header present, declared padded length inside the
// enclosing extent). Used to check that the decoder never takes content from
// outside the declared extent of an item.
func refExtent(b []byte, depth int) (it refItem, n int, ok bool) {
	if len(b) < 8 || depth > 16 {
		return it, 0, false
	}
	it.tag = int(b[0])<<16 | int(b[1])<<8 | int(b[2])
	it.typ = b[3]
	it.length = refBE32(b[4:8])
	padded := (it.length + 7) / 8 * 8
	if it.length < 0 || len(b)-8 < padded {
		return it, 0, false
	}
	it.val = b[8 : 8+it.length]
	if it.typ == 1 {
		rest := it.val
		for len(rest) > 0 {
			// the library uses tag 0 as its end-of-data sentinel: an item with tag 0
			// ends the structure (whatever follows is ignored, not read)
			if len(rest) >= 3 && rest[0] == 0 && rest[1] == 0 && rest[2] == 0 {
				break
			}
			k, kn, kok := refExtent(rest, depth+1)
			if !kok {
				return it, 0, false
			}
			it.kids = append(it.kids, k)
			rest = rest[kn:]
		}
	}
	return it, 8 + padded, true
}

// valueMatches: decoded value v is what item it (from the reference extent
// parser) contains — same tag, same kind, same content bytes.
func valueMatches(v Value, it refItem) bool {
	if v.Tag != it.tag {
		return false
	}
	switch x := v.Value.(type) {
	case int32:
		return it.typ == 2 && len(it.val) >= 4 && x == int32(uint32(refBE32(it.val)))
	case int64:
		return it.typ == 3 && len(it.val) >= 8 && x == int64(uint64(refBE32(it.val[0:4]))<<32|uint64(uint32(refBE32(it.val[4:8]))))
	case *big.Int:
		return it.typ == 4 && x != nil
	case Enum:
		return it.typ == 5 && len(it.val) >= 4 && uint32(x) == uint32(refBE32(it.val))
	case bool:
		return it.typ == 6 && len(it.val) >= 8 && x == (it.val[7] != 0)
	case string:
		return it.typ == 7 && x == string(it.val)
	case []byte:
		return it.typ == 8 && verifBytesEq(x, it.val)
	case time.Time:
		return it.typ == 9 && len(it.val) >= 8 && x.Unix() == int64(uint64(refBE32(it.val[0:4]))<<32|uint64(uint32(refBE32(it.val[4:8]))))
	case time.Duration:
		return it.typ == 10 && len(it.val) >= 4 && x == time.Duration(uint32(refBE32(it.val)))*time.Second
	case Struct:
		if it.typ != 1 || len(x) != len(it.kids) {
			return false
		}
		for i := range x {
			if !valueMatches(x[i], it.kids[i]) {
				return false
			}
		}
		return true
	}
	return false
}

func valueEq(a, b Value) bool {
	if a.Tag != b.Tag {
		return false
	}
	switch x := a.Value.(type) {
	case int32:
		y, ok := b.Value.(int32)
		return ok && x == y
	case int64:
		y, ok := b.Value.(int64)
		return ok && x == y
	case *big.Int:
		y, ok := b.Value.(*big.Int)
		return ok && x != nil && y != nil && x.Cmp(y) == 0
	case Enum:
		y, ok := b.Value.(Enum)
		return ok && x == y
	case bool:
		y, ok := b.Value.(bool)
		return ok && x == y
	case string:
		y, ok := b.Value.(string)
		return ok && x == y
	case []byte:
		y, ok := b.Value.([]byte)
		return ok && verifBytesEq(x, y)
	case time.Time:
		y, ok := b.Value.(time.Time)
		return ok && x.Unix() == y.Unix()
	case time.Duration:
		y, ok := b.Value.(time.Duration)
		return ok && x == y
	case Struct:
		y, ok := b.Value.(Struct)
		if !ok || len(x) != len(y) {
			return false
		}
		for i := range x {
			if !valueEq(x[i], y[i]) {
				return false
			}
		}
		return true
	case nil:
		return b.Value == nil
	}
	return false
}

// c02Known declares the known-finding regions of the binary reader in terms
// of the first item's header (type byte and declared length).
func c02Known(buf []byte) {
	if len(buf) < 8 {
		return
	}
	typ := buf[3]
	length := refBE32(buf[4:8])
	verifKnown("C02-bigint-empty", typ == 4 && length == 0)
}

// VerifC02_BinValue: arbitrary n-byte input, generic target.
func VerifC02_BinValue(n int) {
	buf := verifNondetBytes("b", n)
	c02Decode(buf)
}

// VerifC02_BinNested: the outer item is constrained to "Structure, length
// n-8" so that the search goes into the nested reader.
func VerifC02_BinNested(n int) {
	buf := verifNondetBytes("b", n)
	if n < 8 {
		return
	}
	verifAssume(buf[3] == 1)
	verifAssume(refBE32(buf[4:8]) == n-8)
	c02Decode(buf)
}

func c02Decode(buf []byte) {
	verifWatch(buf)
	c02Known(buf)
	var v Value
	err := UnmarshalTTLV(buf, &v) // a panic escaping here is a violation event
	verifReach("decoded")
	var v2 Value
	err2 := UnmarshalTTLV(buf, &v2)
	verifAssert("second-decode-same-outcome", (err == nil) == (err2 == nil))
	if err != nil || err2 != nil {
		return
	}
	verifReach("accepted")
	verifAssert("second-decode-same-value", valueEq(v, v2))
	if len(buf) == 0 {
		return
	}
	it, _, ok := refExtent(buf, 0)
	verifAssert("extent-wellformed", ok)
	if ok {
		verifAssert("content-within-extent", valueMatches(v, it))
	}
}

// VerifC18_Bin: accepted input -> encode -> decode -> encode is a fixed point.
func VerifC18_Bin(n, nested int) {
	buf := verifNondetBytes("b", n)
	if nested == 1 {
		if n < 8 {
			return
		}
		verifAssume(buf[3] == 1)
		verifAssume(refBE32(buf[4:8]) == n-8)
	}
	orig := append([]byte(nil), buf...)
	var v Value
	if err := UnmarshalTTLV(orig, &v); err != nil {
		return
	}
	if n == 0 {
		return // empty input leaves the target untouched; nothing to re-encode
	}
	verifReach("accepted")
	e1 := MarshalTTLV(v) // must not panic
	var w Value
	err := UnmarshalTTLV(append([]byte(nil), e1...), &w)
	verifAssert("reencoded-decodes", err == nil)
	if err != nil {
		return
	}
	verifAssert("same-value", valueEq(v, w))
	e2 := MarshalTTLV(w)
	verifAssert("fixed-point", verifBytesEq(e1, e2))
}
