package ttlv

// C02 (text readers never panic on whatever the tokeniser can hand over) and
// C18 (re-encoding an accepted text item reaches a fixed point, also through
// the other encodings) at item level. The tokenisers are not executed: the
// harness builds the token the tokeniser contract allows (JSON with UseNumber:
// nil, bool, json.Number, string, []any, map[string]any; XML: a start element
// with arbitrary name and attributes) with symbolic strings.

import (
	"encoding/json"
	"encoding/xml"
	"math/big"
	"strings"
	"time"
)

var c18TypeNames = []string{"", "Structure", "Integer", "LongInteger", "BigInteger", "Enumeration", "Boolean", "TextString", "ByteString", "DateTime", "Interval"}

// c18JSONValue: kind 0 absent, 1 nil, 2 bool, 3 number (n symbolic bytes), 4
// string (n symbolic bytes), 5 empty array, 6 array with one non-object, 7 object
func c18JSONValue(kind, n int, pfx string) (any, bool) {
	switch kind {
	case 0:
		return nil, false
	case 1:
		return nil, true
	case 2:
		return verifNondetBool(pfx + ".b"), true
	case 3:
		return json.Number(verifNondetString(pfx+".n", n)), true
	case 4:
		return verifNondetString(pfx+".s", n), true
	case 5:
		return []any{}, true
	case 6:
		return []any{verifNondetString(pfx+".e", 1)}, true
	default:
		return map[string]any{"tag": "x"}, true
	}
}

// VerifC02_Json: an arbitrary JSON value (top: 0 object, 1..: non-objects) is
// decoded as a generic item. typeIdx selects the "type" member among the ten
// valid names, a symbolic string of typeLen bytes (typeIdx 11), or a non-string
// (typeIdx 12); the "tag" member is a registered name, a symbolic string of 8
// bytes, absent or a non-string; the "value" member by vKind/vLen.
func VerifC02_Json(top, typeIdx, typeLen, tagKind, vKind, vLen int) {
	var topv any
	switch top {
	case 0:
		m := map[string]any{}
		switch {
		case typeIdx < len(c18TypeNames):
			if typeIdx > 0 {
				m["type"] = c18TypeNames[typeIdx]
			}
		case typeIdx == 11:
			m["type"] = verifNondetString("type", typeLen)
		default:
			m["type"] = json.Number("7")
		}
		switch tagKind {
		case 0:
			m["tag"] = "CompromiseDate"
		case 1:
			m["tag"] = verifNondetString("tag", 8)
		case 2:
		default:
			m["tag"] = true
		}
		if v, ok := c18JSONValue(vKind, vLen, "v"); ok {
			m["value"] = v
		}
		topv = m
	case 1:
		topv = json.Number("1")
	case 2:
		topv = verifNondetString("top", 2)
	case 3:
		topv = []any{}
	case 4:
		topv = nil
	default:
		topv = true
	}
	r := &jsonReader{value: []any{topv}}
	d := newDecoder(r)
	var v Value
	_ = d.Any(&v) // a panic escaping is the violation; errors are fine
	// the same item into the typed Go target of its type (the typed decoders use
	// what the reader hands back without the generic container in between)
	r2 := &jsonReader{value: []any{topv}}
	d2 := newDecoder(r2)
	c02TypedTarget(&d2, typeIdx)
	verifReach("returned")
}

func c02TypedTarget(d *Decoder, typeIdx int) {
	switch typeIdx {
	case 2:
		var x int32
		_ = d.TagAny(c04Tag, &x)
	case 3:
		var x int64
		_ = d.TagAny(c04Tag, &x)
	case 4:
		var x big.Int
		_ = d.TagAny(c04Tag, &x)
		var y *big.Int
		_ = d.TagAny(c04Tag, &y)
	case 6:
		var x bool
		_ = d.TagAny(c04Tag, &x)
	case 7:
		var x string
		_ = d.TagAny(c04Tag, &x)
	case 8:
		var x []byte
		_ = d.TagAny(c04Tag, &x)
	case 9:
		var x time.Time
		_ = d.TagAny(c04Tag, &x)
	case 10:
		var x time.Duration
		_ = d.TagAny(c04Tag, &x)
	}
}

// VerifC02_Xml: an arbitrary start element.
func VerifC02_Xml(nameKind, typeIdx, typeLen, vLen, extra int) {
	el := xml.StartElement{}
	switch nameKind {
	case 0:
		el.Name.Local = "CompromiseDate"
	case 1:
		el.Name.Local = "TTLV"
		el.Attr = append(el.Attr, xml.Attr{Name: xml.Name{Local: "tag"}, Value: verifNondetString("tag", 8)})
	case 2:
		el.Name.Local = "TTLV" // no tag attribute
	default:
		el.Name.Local = verifNondetString("name", 4)
	}
	switch {
	case typeIdx == 0:
	case typeIdx < len(c18TypeNames):
		el.Attr = append(el.Attr, xml.Attr{Name: xml.Name{Local: "type"}, Value: c18TypeNames[typeIdx]})
	default:
		el.Attr = append(el.Attr, xml.Attr{Name: xml.Name{Local: "type"}, Value: verifNondetString("type", typeLen)})
	}
	if vLen >= 0 {
		el.Attr = append(el.Attr, xml.Attr{Name: xml.Name{Local: "value"}, Value: verifNondetString("value", vLen)})
	}
	if extra == 1 {
		el.Attr = append(el.Attr, xml.Attr{Name: xml.Name{Local: verifNondetString("attr", 4)}, Value: "x"})
	}
	r := &xmlReader{r: c18NoMoreXML(), elem: &el}
	d := newDecoder(r)
	var v Value
	_ = d.Any(&v)
	el2 := el
	r2 := &xmlReader{r: c18NoMoreXML(), elem: &el2}
	d2 := newDecoder(r2)
	c02TypedTarget(&d2, typeIdx)
	verifReach("returned")
}

// ---------------------------------------------------------------------------
// C18: fixed points through the text encodings

// c18Reencode writes v in encoding enc (0 JSON, 1 XML, 2 binary) and reads it
// back; ok=false if the output is not well-formed or the reader rejects it.
func c18Reencode(v Value, enc int) ([]byte, Value, bool) {
	var out []byte
	var back Value
	switch enc {
	case 2:
		out = append([]byte(nil), MarshalTTLV(v)...)
		if err := UnmarshalTTLV(append([]byte(nil), out...), &back); err != nil {
			return out, back, false
		}
		return out, back, true
	case 0:
		e := NewJSONEncoder()
		e.Any(v)
		out = append([]byte(nil), e.Bytes()...)
	default:
		e := NewXMLEncoder()
		e.Any(v)
		out = append([]byte(nil), e.Bytes()...)
	}
	ty := c18TypeOf(v)
	r, ok := c04Reader(enc, out, v.Tag, ty)
	if !ok {
		return out, back, false
	}
	d := newDecoder(r)
	if err := d.Any(&back); err != nil {
		return out, back, false
	}
	return out, back, true
}

func c18TypeOf(v Value) Type {
	switch v.Value.(type) {
	case int32:
		return TypeInteger
	case int64:
		return TypeLongInteger
	case Enum:
		return TypeEnumeration
	case bool:
		return TypeBoolean
	case string:
		return TypeTextString
	case []byte:
		return TypeByteString
	case Struct:
		return TypeStructure
	}
	// *big.Int, time.Time, time.Duration
	return c18TypeOfOther(v)
}

// refJSONNumber: RFC 8259 §6 number = [ "-" ] int [ frac ] [ exp ]
func refJSONNumber(tok []byte) bool {
	i := 0
	if i < len(tok) && tok[i] == '-' {
		i++
	}
	if i >= len(tok) {
		return false
	}
	if tok[i] == '0' {
		i++
	} else if tok[i] >= '1' && tok[i] <= '9' {
		for i < len(tok) && tok[i] >= '0' && tok[i] <= '9' {
			i++
		}
	} else {
		return false
	}
	if i < len(tok) && tok[i] == '.' {
		i++
		n := 0
		for i < len(tok) && tok[i] >= '0' && tok[i] <= '9' {
			i++
			n++
		}
		if n == 0 {
			return false
		}
	}
	if i < len(tok) && (tok[i] == 'e' || tok[i] == 'E') {
		i++
		if i < len(tok) && (tok[i] == '+' || tok[i] == '-') {
			i++
		}
		n := 0
		for i < len(tok) && tok[i] >= '0' && tok[i] <= '9' {
			i++
			n++
		}
		if n == 0 {
			return false
		}
	}
	return i == len(tok)
}

// c18NoMoreXML: a decoder standing just behind the start tag of the only,
// empty, element of its document (what the executor models for a zero Decoder).
func c18NoMoreXML() *xml.Decoder {
	if verifSymbolic() {
		return &xml.Decoder{}
	}
	d := xml.NewDecoder(strings.NewReader("<x/>"))
	_, _ = d.Token()
	return d
}

// c18Form restricts a symbolic text value: 0 anything, 1 with the "0x" prefix,
// 2 without it (splits the hexadecimal from the decimal / symbolic-name forms,
// whose parsers have very different costs).
func c18Form(s string, form int) {
	hex := len(s) >= 2 && s[0] == '0' && s[1] == 'x'
	switch form {
	case 1:
		verifAssume(hex)
	case 2:
		verifAssume(!hex)
	}
}

// VerifC18_JsonItem: a JSON leaf item whose "value" is an arbitrary string of
// vLen bytes (so hex forms, numeric strings, mixed-case booleans... are all
// reachable) or number token, of type typeIdx (2..10): if the reader accepts it,
// writing it again in encoding enc and reading that back succeeds and a second
// re-encoding is byte-identical to the first.
func VerifC18_JsonItem(typeIdx, vKind, vLen, form, enc int) {
	val, _ := c18JSONValue(vKind, vLen, "v")
	switch x := val.(type) {
	case string:
		c18Form(x, form)
	case json.Number:
		// the tokeniser only hands over texts matching the JSON number grammar
		verifAssume(refJSONNumber([]byte(string(x))))
	}
	m := map[string]any{"tag": "CompromiseDate", "type": c18TypeNames[typeIdx], "value": val}
	r := &jsonReader{value: []any{m}}
	d := newDecoder(r)
	var v Value
	if err := d.Any(&v); err != nil {
		return
	}
	verifReach("accepted")
	c18FixedPoint(v, enc)
}

// VerifC18_XmlItem: same through the XML reader.
func VerifC18_XmlItem(typeIdx, vLen, form, enc int) {
	el := xml.StartElement{Name: xml.Name{Local: "CompromiseDate"}}
	val := verifNondetString("value", vLen)
	c18Form(val, form)
	el.Attr = append(el.Attr, xml.Attr{Name: xml.Name{Local: "type"}, Value: c18TypeNames[typeIdx]}, xml.Attr{Name: xml.Name{Local: "value"}, Value: val})
	r := &xmlReader{r: c18NoMoreXML(), elem: &el}
	d := newDecoder(r)
	var v Value
	if err := d.Any(&v); err != nil {
		return
	}
	verifReach("accepted")
	c18FixedPoint(v, enc)
}

func c18FixedPoint(v Value, enc int) {
	if s, ok := v.Value.(string); ok {
		// representable text only
		verifAssume(c18TextOK(s, enc))
	}
	e1, w, ok := c18Reencode(v, enc) // a panic here is a violation
	verifAssert("re-encoded item is well-formed and accepted", ok)
	if !ok {
		return
	}
	verifAssert("same value after the hop", valueEq(v, w))
	e2, _, ok2 := c18Reencode(w, enc)
	verifAssert("second hop accepted", ok2)
	if ok2 {
		verifAssert("second re-encoding is byte-identical", verifBytesEq(e1, e2))
	}
}

func c18TextOK(s string, enc int) bool {
	if !utf8ValidString(s) {
		return false
	}
	if enc != 1 {
		return true
	}
	for _, r := range s {
		if !(r == 0x9 || r == 0xA || r == 0xD || r >= 0x20 && r <= 0xD7FF || r >= 0xE000 && r <= 0xFFFD || r >= 0x10000) {
			return false
		}
	}
	return true
}

// c18MaskTag: mask number idx in tag order (an unregistered mask tag beyond).
func c18MaskTag(idx int) int {
	var mtags []int
	for tag := range bitmaskNames {
		if tag >= 0x420000 {
			mtags = append(mtags, tag)
		}
	}
	for a := 0; a < len(mtags); a++ {
		for b := a + 1; b < len(mtags); b++ {
			if mtags[b] < mtags[a] {
				mtags[a], mtags[b] = mtags[b], mtags[a]
			}
		}
	}
	if idx < len(mtags) {
		return mtags[idx]
	}
	return 0x420099
}

// c18MaskNames: the registered names of mask mtag, by increasing bit.
func c18MaskNames(mtag int) []string {
	var out []string
	for _, n := range bitmaskNames[mtag] {
		if n != "" {
			out = append(out, n)
		}
	}
	return out
}

// VerifC18_MaskItem: a mask-typed item (src 0 JSON, 1 XML) whose value text has
// one of the lexical shapes the mask readers accept, with symbolic content:
// shape 0: k arbitrary bytes; 1: "0x" + k arbitrary ASCII bytes other than separators; 2: k arbitrary ASCII
// bytes (decimal numbers, signs, separators, spaces); 3: a registered name, one
// arbitrary ASCII byte (the separator), "0x" + k such bytes; 4: two
// registered names around one arbitrary ASCII byte. If the mask reader accepts
// the text, writing the mask again in encoding enc reads back to the same mask
// and a second writing is byte-identical.
func VerifC18_MaskItem(src, idx, shape, k, enc int) {
	mtag := c18MaskTag(idx)
	names := c18MaskNames(mtag)
	ascii := func(s string) {
		for i := 0; i < len(s); i++ {
			verifAssume(s[i] < 0x80)
		}
	}
	token := func(s string) {
		for i := 0; i < len(s); i++ {
			c := s[i]
			verifAssume(c < 0x80 && c != '|' && c != ' ' && !(c >= '\t' && c <= '\r'))
		}
	}
	var val string
	switch shape {
	case 0:
		val = verifNondetString("value", k)
	case 1:
		hex := verifNondetString("value", k)
		token(hex)
		val = "0x" + hex
	case 2:
		val = verifNondetString("value", k)
		ascii(val)
	case 3:
		if len(names) == 0 {
			return
		}
		sep, hex := verifNondetString("sep", 1), verifNondetString("value", k)
		ascii(sep)
		token(hex)
		val = names[len(names)-1] + sep + "0x" + hex
	default:
		if len(names) < 2 {
			return
		}
		sep := verifNondetString("sep", 1)
		ascii(sep)
		val = names[0] + sep + names[k%len(names)]
	}
	var r reader
	if src == 0 {
		m := map[string]any{"tag": "CompromiseDate", "type": "Integer", "value": val}
		r = &jsonReader{value: []any{m}}
	} else {
		el := xml.StartElement{Name: xml.Name{Local: "CompromiseDate"}}
		el.Attr = append(el.Attr, xml.Attr{Name: xml.Name{Local: "type"}, Value: "Integer"}, xml.Attr{Name: xml.Name{Local: "value"}, Value: val})
		r = &xmlReader{r: c18NoMoreXML(), elem: &el}
	}
	v, err := r.Bitmask(mtag, c04Tag)
	if err != nil {
		return
	}
	verifReach("accepted")
	hop := func(v int32) ([]byte, int32, bool) {
		var out []byte
		if enc == 2 {
			w := newTTLVWriter()
			w.Bitmask(mtag, c04Tag, v)
			out = append([]byte(nil), w.Bytes()...)
			rr, err := newTTLVReader(append([]byte(nil), out...))
			if err != nil {
				return out, 0, false
			}
			got, err := rr.Bitmask(mtag, c04Tag)
			return out, got, err == nil
		}
		w := c04Writer(enc)
		w.Bitmask(mtag, c04Tag, v)
		out = append([]byte(nil), w.Bytes()...)
		rr, ok := c04Reader(enc, out, c04Tag, TypeInteger)
		if !ok {
			return out, 0, false
		}
		got, err := rr.Bitmask(mtag, c04Tag)
		return out, got, err == nil
	}
	e1, w1, ok := hop(v)
	verifAssert("re-encoded item is well-formed and accepted", ok)
	if !ok {
		return
	}
	verifAssert("same value after the hop", w1 == v)
	e2, _, ok2 := hop(w1)
	verifAssert("second hop accepted", ok2)
	if ok2 {
		verifAssert("second re-encoding is byte-identical", verifBytesEq(e1, e2))
	}
}

// VerifC02_JsonNested: a Structure item whose value is an array of n child
// items of type typeIdx (value by vKind/vLen, each child its own symbolic
// content), optionally followed by a child that is not an object; decoded as a
// generic value: no panic, and every loop over the children ends.
func VerifC02_JsonNested(typeIdx, vKind, vLen, n, junk int) {
	var kids []any
	for i := 0; i < n; i++ {
		m := map[string]any{"tag": "CompromiseDate", "type": c18TypeNames[typeIdx]}
		if v, ok := c18JSONValue(vKind, vLen, "v"+string(rune('0'+i))); ok {
			m["value"] = v
		}
		kids = append(kids, m)
	}
	switch junk {
	case 1:
		kids = append(kids, json.Number("1"))
	case 2:
		kids = append(kids, map[string]any{"tag": "CompromiseDate", "type": "Structure", "value": []any{}})
	}
	top := map[string]any{"tag": "Attribute", "type": "Structure", "value": kids}
	r := &jsonReader{value: []any{top}}
	d := newDecoder(r)
	var v Value
	_ = d.Any(&v)
	verifReach("returned")
}

// VerifC18_EnumItem: an Enumeration item carrying the tag of a registered
// enumeration (Cryptographic Algorithm), value an arbitrary text of vLen bytes
// (names, decimal, hexadecimal) or a number token: if accepted, it re-encodes to
// a fixed point through encoding enc.
func VerifC18_EnumItem(src, vKind, vLen, form, enc int) {
	const tagName = "CryptographicAlgorithm"
	var r reader
	if src == 0 {
		val, _ := c18JSONValue(vKind, vLen, "v")
		switch x := val.(type) {
		case string:
			c18Form(x, form)
		case json.Number:
			verifAssume(refJSONNumber([]byte(string(x))))
		}
		m := map[string]any{"tag": tagName, "type": "Enumeration", "value": val}
		r = &jsonReader{value: []any{m}}
	} else {
		val := verifNondetString("value", vLen)
		c18Form(val, form)
		el := xml.StartElement{Name: xml.Name{Local: tagName}}
		el.Attr = append(el.Attr, xml.Attr{Name: xml.Name{Local: "type"}, Value: "Enumeration"}, xml.Attr{Name: xml.Name{Local: "value"}, Value: val})
		r = &xmlReader{r: c18NoMoreXML(), elem: &el}
	}
	d := newDecoder(r)
	var v Value
	if err := d.Any(&v); err != nil {
		return
	}
	verifReach("accepted")
	c18FixedPoint(v, enc)
}

// VerifC18_TagItem: an Integer item with an arbitrary unregistered tag of the
// upper half of the 24-bit range (written in the "0x" fallback form) forwarded
// through encoding enc reaches a fixed point with the same tag.
func VerifC18_TagItem(enc int) {
	t := verifNondetInt("tag")
	verifAssume(t >= 0x800000 && t <= 0xFFFFFF)
	verifConfig("real-names")
	v := Value{Tag: t, Value: verifNondetInt32("v")}
	e1, w, ok := c18Reencode(v, enc)
	verifAssert("re-encoded item is well-formed and accepted", ok)
	if !ok {
		return
	}
	verifAssert("same tag after the hop", w.Tag == t)
	verifAssert("same value after the hop", valueEq(v, w))
	e2, _, ok2 := c18Reencode(w, enc)
	verifAssert("second hop accepted", ok2)
	if ok2 {
		verifAssert("second re-encoding is byte-identical", verifBytesEq(e1, e2))
	}
}
