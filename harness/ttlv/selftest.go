package ttlv

// Translator self-test: small functions over symbolic inputs whose results are
// observed; the check driver replays the solver's models natively (several
// paths per job) and compares every observation. No property is attached: a
// mismatch means the executor mis-translates Go and every check is suspect.

import (
	"bytes"
	"encoding/binary"
	"encoding/hex"
	"math/bits"
	"slices"
	"strconv"
	"strings"
	"unicode/utf8"
)

func VerifSelf_Builtins() {
	a, b, c := verifNondetInt64("a"), verifNondetInt64("b"), verifNondetInt64("c")
	verifObserveInt("max", max(a, b, c))
	verifObserveInt("min", min(a, b, c))
	ua, ub := verifNondetUint32("ua"), verifNondetUint32("ub")
	verifObserveInt("umax", int64(max(ua, ub)))
	verifObserveInt("umin", int64(min(ua, ub)))
	verifObserveInt("max0", int64(max(int(a)-4, 0)))
	s := verifNondetUint8("s")
	verifObserveInt("shl", a<<(s&63))
	verifObserveInt("shr", a>>(s&63))
	verifObserveInt("ushr", int64(uint64(a)>>(s&63)))
	verifObserveInt("shlbig", int64(ua<<s))
	verifObserveInt("sshrbig", int64(int32(ua)>>s))
	if b != 0 {
		if !(a == -1<<63 && b == -1) {
			verifObserveInt("div", a/b)
			verifObserveInt("rem", a%b)
		}
		verifObserveInt("udiv", int64(uint64(a)/uint64(b)))
		verifObserveInt("urem", int64(uint64(a)%uint64(b)))
	}
	verifObserveInt("i8", int64(int8(a)))
	verifObserveInt("u16", int64(uint16(a)))
	verifObserveInt("i32", int64(int32(a)))
	verifObserveInt("neg", -a)
	verifObserveInt("not", ^a)
	verifObserveInt("andnot", a&^b)
	verifObserveInt("mul", a*b)
	verifObserveBool("lt", a < b)
	verifObserveBool("ult", uint64(a) < uint64(b))
}

func VerifSelf_Bits() {
	x := verifNondetUint64("x")
	y := verifNondetUint32("y")
	verifObserveInt("len64", int64(bits.Len64(x)))
	verifObserveInt("len32", int64(bits.Len32(y)))
	verifObserveInt("tz64", int64(bits.TrailingZeros64(x)))
	verifObserveInt("tz32", int64(bits.TrailingZeros32(y)))
	verifObserveInt("lz64", int64(bits.LeadingZeros64(x)))
	verifObserveInt("ones", int64(bits.OnesCount64(x)))
	verifObserveInt("rev", int64(bits.ReverseBytes64(x)))
	verifObserveInt("rot", int64(bits.RotateLeft32(y, 5)))
	hi, lo := bits.Mul64(x, uint64(y))
	verifObserveInt("mulhi", int64(hi))
	verifObserveInt("mullo", int64(lo))
	s, carry := bits.Add64(x, uint64(y), 1)
	verifObserveInt("add", int64(s))
	verifObserveInt("carry", int64(carry))
}

func VerifSelf_Strings(n int) {
	s := verifNondetString("s", n)
	verifObserveStr("trim", strings.TrimSpace(s))
	verifObserveInt("fields", int64(len(strings.Fields(s))))
	parts := strings.Split(s, "|")
	verifObserveInt("parts", int64(len(parts)))
	verifObserveStr("last", parts[len(parts)-1])
	verifObserveBool("prefix", strings.HasPrefix(s, "0x"))
	verifObserveInt("index", int64(strings.Index(s, "ab")))
	verifObserveInt("indexbyte", int64(strings.IndexByte(s, 'z')))
	if n > 0 && s[0] < 0x80 && s[n-1] < 0x80 {
		verifObserveStr("upper", strings.ToUpper(s))
		verifObserveStr("lower", strings.ToLower(s))
	}
	verifObserveBool("fold", strings.EqualFold(s, "true"))
	verifObserveBool("valid", utf8.ValidString(s))
	verifObserveInt("runes", int64(utf8.RuneCountInString(s)))
	r, size := utf8.DecodeLastRuneInString(s)
	verifObserveInt("lastrune", int64(r))
	verifObserveInt("lastsize", int64(size))
	cnt := 0
	var sum rune
	for _, r := range s {
		cnt++
		sum += r
	}
	verifObserveInt("rangecnt", int64(cnt))
	verifObserveInt("rangesum", int64(sum))
	verifObserveInt("cmp", int64(strings.Compare(s, "m")))
	verifObserveStr("trimleft", strings.TrimLeft(s, "0"))
	verifObserveStr("replace", strings.ReplaceAll(s, "a", "bb"))
	switch s {
	case "ab", "cd":
		verifObserveInt("sw", 1)
	case "":
		verifObserveInt("sw", 2)
	default:
		verifObserveInt("sw", 3)
	}
}

func VerifSelf_Conv(n int) {
	s := verifNondetString("s", n)
	if v, err := strconv.ParseInt(s, 10, 32); err == nil {
		verifObserveInt("dec32", v)
	} else {
		verifObserveInt("dec32err", 1)
	}
	if v, err := strconv.ParseUint(s, 16, 64); err == nil {
		verifObserveInt("hex64", int64(v))
	} else {
		verifObserveInt("hex64err", 1)
	}
	if v, err := strconv.ParseInt(s, 16, 16); err == nil {
		verifObserveInt("hex16", v)
	} else {
		verifObserveInt("hex16err", 1)
	}
	if v, err := strconv.ParseBool(s); err == nil {
		verifObserveBool("bool", v)
	}
	if b, err := hex.DecodeString(s); err == nil {
		verifObserveBytes("unhex", b)
	}
	x := verifNondetInt64("x")
	verifObserveStr("itoa", strconv.FormatInt(x, 10))
	verifObserveStr("utoa", strconv.FormatUint(uint64(x), 10))
	verifObserveStr("xtoa", strconv.FormatUint(uint64(x), 16))
	if n <= 1 {
		verifObserveStr("quote", strconv.Quote(s))
	}
}

func VerifSelf_Slices(n int) {
	b := verifNondetBytes("b", n)
	c := append([]byte(nil), b...)
	if n <= 3 {
		slices.Sort(c)
	}
	verifObserveBytes("sorted", c)
	verifObserveInt("cmp", int64(bytes.Compare(b, c)))
	verifObserveBool("eq", bytes.Equal(b, c))
	if n >= 3 {
		d := append([]byte(nil), b...)
		copy(d[1:], d[:n-1]) // overlapping
		verifObserveBytes("shift", d)
		e := b[1:2]
		e = append(e, 0xEE) // writes into b's backing array
		verifObserveBytes("alias", b)
		verifObserveInt("cap", int64(cap(e)))
	}
	if n >= 8 {
		verifObserveInt("be64", int64(binary.BigEndian.Uint64(b)))
		verifObserveInt("le32", int64(binary.LittleEndian.Uint32(b[2:])))
		verifObserveBytes("put", binary.BigEndian.AppendUint16(nil, uint16(b[0])<<8|uint16(b[7])))
	}
	idx := int(verifNondetUint8("i"))
	if idx < n {
		verifObserveInt("at", int64(b[idx]))
	}
	m := map[string]int{"a": 1, "bb": 2}
	k := string(b[:min(n, 2)])
	v, ok := m[k]
	verifObserveInt("mapv", int64(v))
	verifObserveBool("mapok", ok)
	var buf bytes.Buffer
	buf.Write(b)
	buf.WriteByte('!')
	buf.WriteString(k)
	verifObserveBytes("buf", buf.Bytes())
	verifObserveInt("idx", int64(bytes.IndexByte(b, 7)))
}

type selfT struct {
	a [3]byte
	p *int
	s []int
}

func VerifSelf_Control() {
	x := int(verifNondetUint8("x"))
	// value semantics
	t1 := selfT{a: [3]byte{1, 2, byte(x)}, s: []int{1, 2, 3}}
	t2 := t1
	t2.a[0] = 9
	t2.s[0] = 9
	verifObserveInt("a0", int64(t1.a[0]))
	verifObserveInt("s0", int64(t1.s[0]))
	// defer / recover order
	order := 0
	func() {
		defer func() {
			if r := recover(); r != nil {
				order = order*10 + 3
			}
		}()
		defer func() { order = order*10 + 2 }()
		order = order*10 + 1
		var arr [4]int
		_ = arr[x%8] // panics for x%8 >= 4
		order = order*10 + 7
	}()
	verifObserveInt("order", int64(order))
	// closures capture by reference
	acc := 0
	add := func(d int) { acc += d }
	for i := 0; i < x%5; i++ {
		add(i)
	}
	verifObserveInt("acc", int64(acc))
	// labelled break / continue
	cnt := 0
outer:
	for i := 0; i < 4; i++ {
		for j := 0; j < 4; j++ {
			if j == x%4 {
				continue outer
			}
			if i == x%3+1 {
				break outer
			}
			cnt++
		}
	}
	verifObserveInt("cnt", int64(cnt))
	// interface dispatch and type switch
	var v any
	switch x % 3 {
	case 0:
		v = int32(x)
	case 1:
		v = "s"
	default:
		v = []byte{byte(x)}
	}
	switch y := v.(type) {
	case int32:
		verifObserveInt("ts", int64(y))
	case string:
		verifObserveInt("ts", -1)
	case []byte:
		verifObserveInt("ts", int64(y[0])+1000)
	}
}
