package ttlv

// C17 — tag, enumeration and bit-mask names form a stable bijection.

import (
	"encoding/xml"
	"slices"
	"strconv"
	"strings"
)

func c17NameOK(n string) bool {
	if n == "" || strings.HasPrefix(n, "0x") || strings.HasPrefix(n, "0X") || strings.ContainsAny(n, " |\t\n") {
		return false
	}
	if _, err := strconv.ParseInt(n, 10, 64); err == nil {
		return false
	}
	return true
}

// VerifC17_Tables: the registry built by the current source equals the pinned
// snapshot, forward and reverse maps agree, names are unambiguous and cannot be
// mis-read as numbers or split by the text readers. (Concrete data, decided by
// exhaustive evaluation.)
func VerifC17_Tables() {
	// tags
	n := 0
	for tag, name := range tagNames {
		if tag < 0x420000 {
			continue // registered by tests or extensions, not part of the KMIP registry
		}
		n++
		verifAssert("tag is pinned with the same name", c17PinnedTags[tag] == name)
		verifAssert("tag name is well-formed", c17NameOK(name))
		back, ok := tagByName[name]
		verifAssert("tag name maps back to the same number", ok && back == tag)
	}
	verifAssert("no pinned tag is missing", n == len(c17PinnedTags))
	for name, tag := range tagByName {
		if tag < 0x420000 {
			continue
		}
		verifAssert("reverse tag entry has its forward entry", tagNames[tag] == name)
	}
	// enumerations
	ne := 0
	for tag, names := range enumNames {
		if tag < 0x420000 {
			continue
		}
		ne++
		pinned, ok := c17PinnedEnums[tag]
		verifAssert("enumeration is pinned", ok && len(pinned) == len(names))
		rev := enumsByName[tag]
		verifAssert("enumeration has as many names as values", len(rev) == len(names))
		for v, name := range names {
			verifAssert("enum value is pinned with the same name", pinned[v] == name)
			verifAssert("enum name is well-formed", c17NameOK(name))
			back, ok := rev[name]
			verifAssert("enum name maps back to the same value", ok && back == v)
		}
	}
	verifAssert("no pinned enumeration is missing", ne == len(c17PinnedEnums))
	// masks
	nm := 0
	for tag, names := range bitmaskNames {
		if tag < 0x420000 {
			continue
		}
		nm++
		pinned := c17PinnedMasks[tag]
		verifAssert("mask is pinned", slices.Equal(pinned, names))
		seen := map[string]bool{}
		for i, name := range names {
			if name == "" {
				continue
			}
			verifAssert("mask flag name is well-formed", c17NameOK(name))
			verifAssert("mask flag name is unique", !seen[name])
			seen[name] = true
			back, err := BitmaskByStr(tag, name)
			verifAssert("mask flag name maps back to its bit", err == nil && back == 1<<i)
		}
	}
	verifAssert("no pinned mask is missing", nm == len(c17PinnedMasks))
}

func c17SortedEnumTags() []int {
	var tags []int
	for tag := range enumNames {
		if tag >= 0x420000 {
			tags = append(tags, tag)
		}
	}
	slices.Sort(tags)
	return tags
}

// VerifC17_Tag: for an arbitrary 24-bit tag, the name written by the text
// encodings (registered name, or the 0x%06X fallback) is read back as the same
// number by the real Tag() of the JSON reader (which 0) and of the XML reader
// in both of its forms (1: TTLV element with a tag attribute, 2: element name).
func VerifC17_Tag(which, high int) {
	t := verifNondetInt("tag")
	if high == 1 {
		verifAssume(t >= 0x800000 && t <= 0xFFFFFF)
	} else {
		verifAssume(t >= 0x420000 && t < 0x800000)
	}
	verifConfig("real-names")
	name := TagString(t)
	_, known := tagNames[t]
	verifAssert("hex fallback exactly for unregistered tags", strings.HasPrefix(name, "0x") == !known)
	var got int
	switch which {
	case 0:
		r := &jsonReader{value: []any{map[string]any{"tag": name, "type": "Integer", "value": "1"}}}
		got = r.Tag()
	case 1:
		el := xml.StartElement{Name: xml.Name{Local: "TTLV"}, Attr: []xml.Attr{{Name: xml.Name{Local: "tag"}, Value: name}}}
		r := &xmlReader{elem: &el}
		got = r.Tag()
	default:
		if !known {
			return // unregistered tags are always written in the TTLV element form
		}
		el := xml.StartElement{Name: xml.Name{Local: name}}
		r := &xmlReader{elem: &el}
		got = r.Tag()
	}
	verifAssert("written tag is read back as the same number", got == t)
}

// VerifC17_Enum: enumeration number idx (sorted by tag): for an arbitrary
// 32-bit value, name -> value -> name.
func VerifC17_Enum(idx int) {
	tags := c17SortedEnumTags()
	if idx >= len(tags) {
		return
	}
	tag := tags[idx]
	v := verifNondetUint32("v")
	name := EnumName(tag, v)
	if name == "" {
		verifReach("unregistered")
		_, err := EnumByName(tag, "")
		verifAssert("empty name is not a value", err != nil)
		return
	}
	verifReach("registered")
	back, err := EnumByName(tag, name)
	verifAssert("value -> name -> value", err == nil && back == v)
	for n, val := range enumsByName[tag] {
		verifAssert("name -> value -> name", EnumName(tag, val) == n)
	}
}

// VerifC17_Mask: every single flag and every pair of flags of mask idx is
// written and read back (separator as in the XML and the JSON form).
func VerifC17_Mask(idx, jsonSep int) {
	var tags []int
	for tag := range bitmaskNames {
		if tag >= 0x420000 {
			tags = append(tags, tag)
		}
	}
	slices.Sort(tags)
	if idx >= len(tags) {
		return
	}
	tag := tags[idx]
	sep := " "
	if jsonSep == 1 {
		sep = "|"
	}
	names := bitmaskNames[tag]
	for i := 0; i < len(names); i++ {
		for j := i; j < len(names); j++ {
			if names[i] == "" || names[j] == "" {
				continue
			}
			v := int32(1<<i | 1<<j)
			s := string(AppendBitmaskString([]byte{}, tag, v, sep))
			var got int32
			for _, part := range strings.Split(s, sep) {
				b, err := BitmaskByStr(tag, part)
				verifAssert("flag name reads back", err == nil)
				got |= b
			}
			verifAssert("mask round trip by names", got == v)
		}
	}
}
