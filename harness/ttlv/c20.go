package ttlv

import "sync"

// VerifResetPlanCaches puts the lazily built per-type encode/decode plans back
// to the state of a fresh process (used by the C20 harnesses to compare "cold"
// and "warm" results inside one execution).
func VerifResetPlanCaches() {
	encodeFuncsCache = new(sync.Map)
	decodeFuncsCache = new(sync.Map)
}

// VerifC20_Clear: an Encoder in an arbitrary state (any version, any buffer
// content) is, after Clear, in the state of a fresh encoder — for each writer.
func VerifC20_Clear(writerIdx int) {
	var enc Encoder
	switch writerIdx {
	case 0:
		enc = NewTTLVEncoder()
	case 1:
		enc = NewXMLEncoder()
	case 2:
		enc = NewJSONEncoder()
	default:
		enc = NewTextEncoder()
	}
	// arbitrary prior state: a version captured from an earlier message and content
	if verifChoose("hasVersion", 2) == 1 {
		enc.extension.version = &version{major: verifNondetInt("major"), minor: verifNondetInt("minor")}
	}
	if writerIdx == 0 {
		enc.Integer(0x420001, verifNondetInt32("junk"))
	}
	enc.Clear()
	verifAssert("version forgotten", enc.extension.version == nil)
	verifAssert("buffer empty", len(enc.Bytes()) == 0)
	if writerIdx == 0 {
		v := verifNondetInt32("v")
		enc.Integer(0x420002, v)
		verifAssert("same bytes as a fresh encoder", verifBytesEq(enc.Bytes(), MarshalTTLV(Value{Tag: 0x420002, Value: v})))
	}
}
