package kmipclient

// C19 — middleware chains run in order and are re-entrant (client chain).

import (
	"context"
	"errors"
	"net"
	"strconv"
	"sync"

	"github.com/ovh/kmip-go"
)

type c19Key struct{}

type c19Stage struct {
	k       int  // number of continuation calls
	replMsg bool // pass a new message on
	replCtx bool // pass a new context on
	dead    bool // the context passed on by the first continuation call is already cancelled
	fail    bool // return its own error
}

type c19World struct {
	stages []c19Stage
	trace  []string
	errs   map[error]string
	errT   error
}

func c19CtxLabel(ctx context.Context) string {
	s, _ := ctx.Value(c19Key{}).(string)
	return s
}

func c19Stages(n int) []c19Stage {
	st := make([]c19Stage, n)
	for i := range st {
		st[i] = c19Stage{k: verifChoose("k", 3), replMsg: verifChoose("replMsg", 2) == 1, replCtx: verifChoose("replCtx", 2) == 1, fail: verifChoose("fail", 2) == 1, dead: verifChoose("dead", 2) == 1}
	}
	return st
}

// reference model: stage i calls run(i+1) k times; the innermost stage is T.
func (w *c19World) ref(i int, msg, ctx string, out *[]string) string {
	if i == len(w.stages) {
		*out = append(*out, "T:"+msg+":"+ctx)
		return "errT"
	}
	s := w.stages[i]
	id := strconv.Itoa(i)
	*out = append(*out, "S"+id+":"+msg+":"+ctx)
	m2, c2 := msg, ctx
	if s.replMsg {
		m2 = "m" + id
	}
	if s.replCtx {
		c2 = "c" + id
	}
	last := "short" + id
	for j := 0; j < s.k; j++ {
		cj := c2
		if s.dead && j == 0 {
			cj = "x" + id
		}
		last = w.ref(i+1, m2, cj, out)
		*out = append(*out, "R"+id+":"+last)
	}
	if s.fail {
		return "err" + id
	}
	return last
}

func (w *c19World) label(err error) string {
	if l, ok := w.errs[err]; ok {
		return l
	}
	return "other"
}

func (w *c19World) middleware(i int) Middleware {
	s := w.stages[i]
	id := strconv.Itoa(i)
	own := errors.New("stage error")
	short := errors.New("short circuit")
	w.errs[own] = "err" + id
	w.errs[short] = "short" + id
	return func(next Next, ctx context.Context, msg *kmip.RequestMessage) (*kmip.ResponseMessage, error) {
		w.trace = append(w.trace, "S"+id+":"+msg.Header.ClientCorrelationValue+":"+c19CtxLabel(ctx))
		m2, c2 := msg, ctx
		if s.replMsg {
			m2 = &kmip.RequestMessage{}
			m2.Header.ClientCorrelationValue = "m" + id
		}
		if s.replCtx {
			c2 = context.WithValue(ctx, c19Key{}, "c"+id)
		}
		var err error = short
		for j := 0; j < s.k; j++ {
			cj := c2
			if s.dead && j == 0 {
				// a spent per-attempt context: the rest of the chain still runs (the
				// transport is the stage that may look at it)
				cc, cancel := context.WithCancel(context.WithValue(c2, c19Key{}, "x"+id))
				cancel()
				cj = cc
			}
			_, err = next(cj, m2)
			w.trace = append(w.trace, "R"+id+":"+w.label(err))
		}
		if s.fail {
			return nil, own
		}
		return nil, err
	}
}

func VerifC19_Client(n int) {
	w := &c19World{stages: c19Stages(n), errs: map[error]string{}}
	w.errT = errors.New("dial refused")
	w.errs[w.errT] = "errT"
	var mws []Middleware
	for i := range w.stages {
		mws = append(mws, w.middleware(i))
	}
	// innermost stage = the real transport; the dialer records the message/context
	// it was reached with and refuses, so the exchange ends there
	var curMsg *kmip.RequestMessage
	c := &Client{lock: new(sync.Mutex), middlewares: mws}
	c.dialer = func(ctx context.Context) (net.Conn, error) {
		_ = curMsg
		w.trace = append(w.trace, "T:?:"+c19CtxLabel(ctx))
		return nil, w.errT
	}
	msg := &kmip.RequestMessage{}
	msg.Header.ClientCorrelationValue = "m"
	_, err := c.Roundtrip(context.WithValue(context.Background(), c19Key{}, "c"), msg)
	var want []string
	res := w.ref(0, "m", "c", &want)
	verifAssert("result is the outermost stage's result", w.label(err) == res)
	verifAssert("same number of stage executions", len(w.trace) == len(want))
	for i := range want {
		if i >= len(w.trace) {
			break
		}
		exp := want[i]
		got := w.trace[i]
		if len(exp) > 2 && exp[0] == 'T' {
			// the dialer does not see the message: compare stage kind and context only
			verifAssert("trace entry (innermost)", len(got) > 2 && got[0] == 'T' && c19Suffix(got) == c19Suffix(exp))
			continue
		}
		verifAssert("trace entry", got == exp)
	}
}

func c19Suffix(s string) string {
	for i := len(s) - 1; i >= 0; i-- {
		if s[i] == ':' {
			return s[i+1:]
		}
	}
	return s
}
