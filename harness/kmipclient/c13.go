package kmipclient

// C13 — version negotiation adopts the highest common protocol version.

import (
	"context"
	"sync"

	"github.com/ovh/kmip-go"
	"github.com/ovh/kmip-go/kmipserver"
	"github.com/ovh/kmip-go/payloads"
	"github.com/ovh/kmip-go/ttlv"
)

func c13Version(name string) kmip.ProtocolVersion {
	return kmip.ProtocolVersion{ProtocolVersionMajor: verifNondetInt32(name + ".major"), ProtocolVersionMinor: verifNondetInt32(name + ".minor")}
}

// c13Small: versions 1.0 .. 1.4 with a symbolic minor (the subsets of the
// statement's 31 x 32 matrix arise as the values of these variables).
func c13Small(name string) kmip.ProtocolVersion {
	m := verifNondetInt32(name + ".minor")
	verifAssume(m >= 0 && m <= 4)
	return kmip.ProtocolVersion{ProtocolVersionMajor: 1, ProtocolVersionMinor: m}
}

func c13Contains(l []kmip.ProtocolVersion, v kmip.ProtocolVersion) bool {
	res := false
	for _, x := range l {
		res = verifOr(res, x == v)
	}
	return res
}

func c13Less(a, b kmip.ProtocolVersion) bool {
	return a.ProtocolVersionMajor < b.ProtocolVersionMajor || a.ProtocolVersionMajor == b.ProtocolVersionMajor && a.ProtocolVersionMinor < b.ProtocolVersionMinor
}

// c13IsMaxCommon: v is in both lists and no common version is greater.
func c13IsMaxCommon(v kmip.ProtocolVersion, cl, sv []kmip.ProtocolVersion) bool {
	res := verifAnd(c13Contains(cl, v), c13Contains(sv, v))
	for _, x := range cl {
		common := c13Contains(sv, x)
		res = verifAnd(res, verifImplies(common, !c13Less(v, x)))
	}
	return res
}

func c13HasCommon(cl, sv []kmip.ProtocolVersion) bool {
	res := false
	for _, x := range cl {
		res = verifOr(res, c13Contains(sv, x))
	}
	return res
}

func c13ClientSet(nc int, small bool) []kmip.ProtocolVersion {
	var vs []kmip.ProtocolVersion
	for i := 0; i < nc; i++ {
		if small {
			vs = append(vs, c13Small("c"))
		} else {
			vs = append(vs, c13Version("c"))
		}
	}
	o := &opts{}
	if err := WithKmipVersions(vs...)(o); err != nil {
		panic(err)
	}
	return o.supportedVersions
}

type c13Stub struct {
	reply    func(req *kmip.RequestMessage) *kmip.ResponseMessage
	requests []*kmip.RequestMessage
}

func c13Client(cl []kmip.ProtocolVersion, st *c13Stub) *Client {
	return &Client{
		lock:              new(sync.Mutex),
		supportedVersions: cl,
		middlewares: []Middleware{func(next Next, ctx context.Context, msg *kmip.RequestMessage) (*kmip.ResponseMessage, error) {
			st.requests = append(st.requests, msg)
			return st.reply(msg), nil
		}},
	}
}

func c13CheckCarried(c *Client, st *c13Stub) {
	adopted := *c.version
	st.reply = func(req *kmip.RequestMessage) *kmip.ResponseMessage {
		return &kmip.ResponseMessage{Header: kmip.ResponseHeader{ProtocolVersion: req.Header.ProtocolVersion, BatchCount: 1},
			BatchItem: []kmip.ResponseBatchItem{{Operation: kmip.OperationActivate, ResponsePayload: &payloads.ActivateResponsePayload{}}}}
	}
	n := len(st.requests)
	_, err := c.Request(context.Background(), &payloads.ActivateRequestPayload{UniqueIdentifier: "x"})
	verifAssert("next request succeeds", err == nil && len(st.requests) == n+1)
	if len(st.requests) == n+1 {
		verifAssert("next request carries the adopted version", st.requests[n].Header.ProtocolVersion == adopted)
	}
	verifAssert("Version() reports it", c.Version() == adopted)
}

// VerifC13_AnyServer: arbitrary (not necessarily conformant) server.
// mode 0: answers with a list of ns arbitrary versions in arbitrary order
// mode 1: discovery not supported; mode 2: fails with another reason
func VerifC13_AnyServer(nc, ns, mode int) {
	cl := c13ClientSet(nc, false)
	var sv []kmip.ProtocolVersion
	for i := 0; i < ns; i++ {
		sv = append(sv, c13Version("s"))
	}
	st := &c13Stub{}
	st.reply = func(req *kmip.RequestMessage) *kmip.ResponseMessage {
		it := kmip.ResponseBatchItem{Operation: kmip.OperationDiscoverVersions}
		switch mode {
		case 0:
			it.ResponsePayload = &payloads.DiscoverVersionsResponsePayload{ProtocolVersion: sv}
		case 1:
			it.ResultStatus = kmip.ResultStatusOperationFailed
			it.ResultReason = kmip.ResultReasonOperationNotSupported
		default:
			it.ResultStatus = kmip.ResultStatusOperationFailed
			it.ResultReason = kmip.ResultReason(verifNondetUint32("reason"))
			verifAssume(it.ResultReason != kmip.ResultReasonOperationNotSupported)
		}
		return &kmip.ResponseMessage{Header: kmip.ResponseHeader{ProtocolVersion: req.Header.ProtocolVersion, BatchCount: 1}, BatchItem: []kmip.ResponseBatchItem{it}}
	}
	c := c13Client(cl, st)
	err := c.negotiateVersion(context.Background())
	switch mode {
	case 0:
		verifAssert("error iff no common version", (err != nil) == !c13HasCommon(cl, sv))
		if err == nil {
			verifAssert("adopted version is set", c.version != nil)
			if c.version != nil {
				verifAssert("adopted is the highest common version", c13IsMaxCommon(*c.version, cl, sv))
				c13CheckCarried(c, st)
			}
		}
	case 1:
		has10 := c13Contains(cl, kmip.V1_0)
		verifAssert("fallback iff 1.0 configured", (err == nil) == has10)
		if err == nil && c.version != nil {
			verifAssert("fallback version is 1.0", *c.version == kmip.V1_0)
			c13CheckCarried(c, st)
		}
	default:
		verifAssert("other failures are errors", err != nil)
	}
}

// VerifC13_Enforced: an enforced version bypasses discovery and is carried.
func VerifC13_Enforced() {
	v := c13Version("enforced")
	st := &c13Stub{}
	st.reply = func(req *kmip.RequestMessage) *kmip.ResponseMessage { return nil }
	c := c13Client([]kmip.ProtocolVersion{kmip.V1_4}, st)
	o := &opts{}
	_ = EnforceVersion(v)(o)
	c.version = o.enforceVersion
	err := c.negotiateVersion(context.Background())
	verifAssert("no discovery exchange", err == nil && len(st.requests) == 0)
	verifAssert("enforced version adopted", c.version != nil && *c.version == v)
	if c.version != nil {
		c13CheckCarried(c, st)
	}
}

// VerifC13_OwnServer: the library's own server (real SetSupportedProtocolVersions
// and handleDiscover), reached through the real binary codec.
func VerifC13_OwnServer(nc, ns int) {
	cl := c13ClientSet(nc, true)
	var sv []kmip.ProtocolVersion
	for i := 0; i < ns; i++ {
		sv = append(sv, c13Small("s"))
	}
	exec := kmipserver.NewBatchExecutor()
	exec.SetSupportedProtocolVersions(append([]kmip.ProtocolVersion(nil), sv...)...)
	// Known finding (open): the discovery request is always sent with protocol
	// version 1.1 in its header; the library's own server rejects the whole
	// message when 1.1 is not in its supported set, so negotiation fails although
	// a common version exists.
	verifKnown("C13-discover-rejected-without-1.1", verifAnd(!c13Contains(sv, kmip.V1_1), c13HasCommon(cl, sv)))
	st := &c13Stub{}
	st.reply = func(req *kmip.RequestMessage) *kmip.ResponseMessage {
		resp := exec.HandleRequest(context.Background(), req)
		if len(resp.BatchItem) == 1 {
			if pl, ok := resp.BatchItem[0].ResponsePayload.(*payloads.DiscoverVersionsRequestPayload); ok {
				for i := 1; i < len(pl.ProtocolVersion); i++ {
					verifAssert("server advertises versions highest first", c13Less(pl.ProtocolVersion[i], pl.ProtocolVersion[i-1]))
				}
			}
		}
		wire := ttlv.MarshalTTLV(resp)
		var decoded kmip.ResponseMessage
		if err := ttlv.UnmarshalTTLV(wire, &decoded); err != nil {
			panic(err)
		}
		return &decoded
	}
	c := c13Client(cl, st)
	err := c.negotiateVersion(context.Background())
	verifAssert("error iff no common version", (err != nil) == !c13HasCommon(cl, sv))
	if err == nil && c.version != nil {
		verifAssert("adopted is the highest common version", c13IsMaxCommon(*c.version, cl, sv))
	}
}

// VerifC13_OwnServerTwice: two clients negotiate one after the other against
// the same server instance: the first exchange must not change what the server
// supports (the result for the second client depends on the sets only).
func VerifC13_OwnServerTwice(nc1, nc2, ns, configure int) {
	cl1 := c13ClientSet(nc1, true)
	cl2 := c13ClientSet(nc2, true)
	var sv []kmip.ProtocolVersion
	exec := kmipserver.NewBatchExecutor()
	if configure == 1 {
		for i := 0; i < ns; i++ {
			sv = append(sv, c13Small("s"))
		}
		exec.SetSupportedProtocolVersions(append([]kmip.ProtocolVersion(nil), sv...)...)
	} else {
		sv = []kmip.ProtocolVersion{kmip.V1_0, kmip.V1_1, kmip.V1_2, kmip.V1_3, kmip.V1_4}
	}
	verifKnown("C13-discover-rejected-without-1.1", !c13Contains(sv, kmip.V1_1))
	reply := func(req *kmip.RequestMessage) *kmip.ResponseMessage {
		resp := exec.HandleRequest(context.Background(), req)
		wire := ttlv.MarshalTTLV(resp)
		var decoded kmip.ResponseMessage
		if err := ttlv.UnmarshalTTLV(wire, &decoded); err != nil {
			panic(err)
		}
		return &decoded
	}
	st1 := &c13Stub{reply: reply}
	c1 := c13Client(cl1, st1)
	_ = c1.negotiateVersion(context.Background())
	st2 := &c13Stub{reply: reply}
	c2 := c13Client(cl2, st2)
	err := c2.negotiateVersion(context.Background())
	verifAssert("second client: error iff no common version", (err != nil) == !c13HasCommon(cl2, sv))
	if err == nil && c2.version != nil {
		verifAssert("second client: adopted is the highest common version", c13IsMaxCommon(*c2.version, cl2, sv))
	}
	// a second executor using the package default is not affected either
	other := kmipserver.NewBatchExecutor()
	st3 := &c13Stub{reply: func(req *kmip.RequestMessage) *kmip.ResponseMessage {
		resp := other.HandleRequest(context.Background(), req)
		wire := ttlv.MarshalTTLV(resp)
		var decoded kmip.ResponseMessage
		if err := ttlv.UnmarshalTTLV(wire, &decoded); err != nil {
			panic(err)
		}
		return &decoded
	}}
	c3 := c13Client([]kmip.ProtocolVersion{kmip.V1_4, kmip.V1_3}, st3)
	err3 := c3.negotiateVersion(context.Background())
	verifAssert("default-configured server still offers 1.4", err3 == nil && c3.version != nil && *c3.version == kmip.V1_4)
}
