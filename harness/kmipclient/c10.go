package kmipclient

// C10 — a client call only ever receives the response to its own request.
// C11 — the client survives connection faults at every point of an exchange.
// Concurrent mode with a scripted in-memory server; the transport speaks whole
// messages (codec cut out).

import (
	"context"
	"errors"
	"io"
	"net"
	"sync"
	"time"

	"github.com/ovh/kmip-go"
)

type c10Server struct {
	seen      []string // request ids in arrival order (all connections)
	hold      string   // responses to this id are withheld until released
	dials     int
	conns     []*c10Conn
	dialFail  int // index of the dial that fails (-1 none)
	faultConn int // connection index the fault applies to
	faultOp   int // 0 none, 1 write fails, 2 read EOF instead of response, 3 read reset instead of response, 4 server closes right after replying, 5 unsolicited message then write failure, 6 read reports a closed transport (net.ErrClosed) instead of a response, 7 write reports a closed transport
	reachable bool
}

type c10Conn struct {
	srv       *c10Server
	idx       int
	pending   []*kmip.ResponseMessage
	held      []*kmip.ResponseMessage
	closed    bool // closed by the client
	peerEOF   bool
	peerReset bool
	peerClosed bool
	eofAfter  bool
}

var errC10Reset = errors.New("connection reset by peer")
var errC10Dial = errors.New("dial: connection refused")

func (s *c10Server) dial(ctx context.Context) (net.Conn, error) {
	i := s.dials
	s.dials++
	if i == s.dialFail {
		return nil, errC10Dial
	}
	c := &c10Conn{srv: s, idx: len(s.conns)}
	s.conns = append(s.conns, c)
	if c.faulty(5) {
		// the server speaks first: a response arrives before any request
		early := &kmip.ResponseMessage{}
		early.Header.ClientCorrelationValue = "unsolicited"
		c.pending = append(c.pending, early)
	}
	return c, nil
}

func (s *c10Server) release() {
	s.hold = ""
	for _, c := range s.conns {
		c.pending = append(c.pending, c.held...)
		c.held = nil
	}
}

// faultConn -2: the fault hits every one of the first twelve connections (a
// client that keeps redialing beyond its retry budget gets through in the end,
// so that its transmissions can be counted)
func (c *c10Conn) faulty(op int) bool {
	return (c.srv.faultConn == c.idx || c.srv.faultConn == -2 && c.idx < 12) && c.srv.faultOp == op
}

func (c *c10Conn) VerifSendMsg(msg any) error {
	verifYield()
	if c.closed {
		return net.ErrClosed
	}
	if c.peerReset || c.faulty(1) || c.faulty(5) {
		return errC10Reset
	}
	if c.faulty(7) {
		// counted as a transmission attempt: the request reached the transport
		c.srv.seen = append(c.srv.seen, msg.(*kmip.RequestMessage).Header.ClientCorrelationValue)
		return net.ErrClosed
	}
	req := msg.(*kmip.RequestMessage)
	id := req.Header.ClientCorrelationValue
	c.srv.seen = append(c.srv.seen, id)
	if c.faulty(2) {
		c.peerEOF = true
		return nil
	}
	if c.faulty(3) {
		c.peerReset = true
		return nil
	}
	if c.faulty(6) {
		c.peerClosed = true
		return nil
	}
	resp := &kmip.ResponseMessage{}
	resp.Header.ClientCorrelationValue = id
	if id == c.srv.hold {
		c.held = append(c.held, resp)
	} else {
		c.pending = append(c.pending, resp)
	}
	if c.faulty(4) {
		c.eofAfter = true
	}
	return nil
}

func (c *c10Conn) VerifRecvMsg(ptr any) error {
	verifBlock(func() bool { return c.closed || len(c.pending) > 0 || c.peerEOF || c.peerReset || c.eofAfter || c.peerClosed })
	if c.closed || c.peerClosed && len(c.pending) == 0 {
		return net.ErrClosed
	}
	if len(c.pending) > 0 {
		r := c.pending[0]
		c.pending = c.pending[1:]
		ptr.(*recvMsg).msg = r
		return nil
	}
	if c.peerReset {
		return errC10Reset
	}
	return io.EOF
}

func (c *c10Conn) Read(p []byte) (int, error)         { panic("byte-level read in message-level scenario") }
func (c *c10Conn) Write(p []byte) (int, error)        { panic("byte-level write in message-level scenario") }
func (c *c10Conn) Close() error                       { c.closed = true; return nil }
func (c *c10Conn) LocalAddr() net.Addr                { return c10Addr{} }
func (c *c10Conn) RemoteAddr() net.Addr               { return c10Addr{} }
func (c *c10Conn) SetDeadline(t time.Time) error      { return nil }
func (c *c10Conn) SetReadDeadline(t time.Time) error  { return nil }
func (c *c10Conn) SetWriteDeadline(t time.Time) error { return nil }

type c10Addr struct{}

func (c10Addr) Network() string { return "stub" }
func (c10Addr) String() string  { return "server" }

func c10Client(s *c10Server) *Client {
	v := kmip.V1_4
	return &Client{lock: new(sync.Mutex), version: &v, supportedVersions: []kmip.ProtocolVersion{v}, dialer: s.dial}
}

func c10Req(id string) *kmip.RequestMessage {
	r := &kmip.RequestMessage{}
	r.Header.ProtocolVersion = kmip.V1_4
	r.Header.ClientCorrelationValue = id
	return r
}

func c10Saw(s *c10Server, id string) bool {
	for _, x := range s.seen {
		if x == id {
			return true
		}
	}
	return false
}

func c10Count(s *c10Server, id string) int {
	n := 0
	for _, x := range s.seen {
		if x == id {
			n++
		}
	}
	return n
}

func c10Finish(c *Client, s *c10Server) {
	if c.conn != nil {
		_ = c.Close()
		_ = c.Close() // idempotent
	}
	s.release()
	verifQuiesce()
	verifAssert("no goroutine of a closed or abandoned connection is left", verifLiveGoroutines() == 0)
}

// VerifC10_Cancel: call A is abandoned by cancellation at trigger point trig
// (0: cancel races with the start of the call; 1: after the server has the
// request but before it answers; 2: never, the answer is merely delayed); the
// late response is then released and a second call B is made.
func VerifC10_Cancel(trig int) {
	s := &c10Server{hold: "a", dialFail: -1, faultConn: -1}
	c := c10Client(s)
	ctxA, cancelA := context.WithCancel(context.Background())
	var respA *kmip.ResponseMessage
	var errA error
	doneA := false
	go func() {
		respA, errA = c.Roundtrip(ctxA, c10Req("a"))
		doneA = true
	}()
	switch trig {
	case 0:
		cancelA()
	case 1:
		verifBlock(func() bool { return c10Saw(s, "a") || doneA })
		cancelA()
	default:
		verifBlock(func() bool { return c10Saw(s, "a") || doneA })
		s.release()
	}
	verifBlock(func() bool { return doneA })
	s.release() // the late response to A arrives now, if the connection still exists
	if errA == nil {
		verifAssert("A: own response", respA != nil && respA.Header.ClientCorrelationValue == "a")
	}
	if trig == 2 {
		verifAssert("A: not cancelled, so answered", errA == nil)
	}
	respB, errB := c.Roundtrip(context.Background(), c10Req("b"))
	verifAssert("B: succeeds on a usable connection", errB == nil)
	if errB == nil {
		verifAssert("B: own response, never the late response to A", respB != nil && respB.Header.ClientCorrelationValue == "b")
	}
	cancelA()
	c10Finish(c, s)
}

// VerifC10_Two: two goroutines share the client; responses are produced in
// arrival order; optionally the first caller's response is delayed.
func VerifC10_Two(delay int) {
	s := &c10Server{dialFail: -1, faultConn: -1}
	if delay == 1 {
		s.hold = "a"
	}
	c := c10Client(s)
	var respA, respB *kmip.ResponseMessage
	var errA, errB error
	doneA, doneB := false, false
	go func() {
		respA, errA = c.Roundtrip(context.Background(), c10Req("a"))
		doneA = true
	}()
	go func() {
		respB, errB = c.Roundtrip(context.Background(), c10Req("b"))
		doneB = true
	}()
	if delay == 1 {
		verifBlock(func() bool { return c10Saw(s, "a") })
		s.release()
	}
	verifBlock(func() bool { return doneA && doneB })
	verifAssert("both calls succeed", errA == nil && errB == nil)
	if errA == nil {
		verifAssert("A: own response", respA != nil && respA.Header.ClientCorrelationValue == "a")
	}
	if errB == nil {
		verifAssert("B: own response", respB != nil && respB.Header.ClientCorrelationValue == "b")
	}
	c10Finish(c, s)
}

// VerifC11_Fault: a fault of kind op (1 write fails, 2 EOF instead of the
// response, 3 reset instead of the response, 4 server closes right after
// replying) on connection number fc (0 = first connection, 1 = the first
// reconnection), then a second call, then Close.
func VerifC11_Fault(op, fc, dialFail int) {
	s := &c10Server{dialFail: dialFail, faultConn: fc, faultOp: op}
	c := c10Client(s)
	resp1, err1 := c.Roundtrip(context.Background(), c10Req("a"))
	verifReach("first call returned")
	if err1 == nil {
		verifAssert("first call: complete own response", resp1 != nil && resp1.Header.ClientCorrelationValue == "a")
	}
	verifAssert("a single call transmits its request at most four times", c10Count(s, "a") <= 4)
	s.faultConn = -1 // the server is reachable and healthy from now on
	s.dialFail = -1
	resp2, err2 := c.Roundtrip(context.Background(), c10Req("b"))
	verifAssert("after a failure the next call succeeds when the server is reachable", err2 == nil)
	if err2 == nil {
		verifAssert("second call: own response", resp2 != nil && resp2.Header.ClientCorrelationValue == "b")
	}
	if c.conn != nil {
		verifAssert("close succeeds", c.Close() == nil)
		verifAssert("close is idempotent", c.Close() == nil)
		_, err3 := c.Roundtrip(context.Background(), c10Req("c"))
		_ = err3
	}
	s.release()
	verifQuiesce()
	verifAssert("no goroutine is left behind", verifLiveGoroutines() == 0)
}

// VerifC11_CloseAfterFailedDial: Close on a client whose reconnection failed.
func VerifC11_CloseAfterFailedDial() {
	s := &c10Server{dialFail: 1, faultConn: 0, faultOp: 2}
	c := c10Client(s)
	_, err := c.Roundtrip(context.Background(), c10Req("a"))
	verifAssert("call fails when the reconnection is refused", err != nil)
	_ = c.Close() // must not panic
	verifQuiesce()
	verifAssert("no goroutine is left behind", verifLiveGoroutines() == 0)
}

// VerifC11_AlwaysFailing: every connection accepts the request and then ends
// without replying (kind 2: end of stream, 3: reset, 6: closed transport on read, 7: closed transport on write): the call returns an error
// after a bounded number of transmissions, and recovers once the server is back.
func VerifC11_AlwaysFailing(kind int) {
	s := &c10Server{dialFail: -1, faultConn: -2, faultOp: kind}
	c := c10Client(s)
	_, err := c.Roundtrip(context.Background(), c10Req("a"))
	verifAssert("the call gives up with an error", err != nil)
	verifAssert("a single call transmits its request at most four times", c10Count(s, "a") <= 4)
	s.faultConn = -1
	resp, err2 := c.Roundtrip(context.Background(), c10Req("b"))
	verifAssert("recovers once the server answers again", err2 == nil && resp != nil && resp.Header.ClientCorrelationValue == "b")
	c10Finish(c, s)
}

// VerifC11_Unsolicited: the server sends a message before any request and the
// client's first write fails: the connection is abandoned while its read loop
// holds a response nobody waits for; the call is retried on a fresh connection.
func VerifC11_Unsolicited() {
	s := &c10Server{dialFail: -1, faultConn: 0, faultOp: 5}
	c := c10Client(s)
	resp, err := c.Roundtrip(context.Background(), c10Req("a"))
	if err == nil {
		verifAssert("own response or an error, never the unsolicited message", resp != nil && resp.Header.ClientCorrelationValue == "a")
	}
	s.faultConn = -1
	resp2, err2 := c.Roundtrip(context.Background(), c10Req("b"))
	verifAssert("next call succeeds", err2 == nil && resp2 != nil && resp2.Header.ClientCorrelationValue == "b")
	c10Finish(c, s)
}
