package kmipclient

// C12 — the client turns every protocol-violating server response into an
// error. The transport is replaced through the public middleware API by a stub
// that returns a symbolic response message.

import (
	"context"
	"sync"

	"github.com/ovh/kmip-go"
	"github.com/ovh/kmip-go/payloads"
)

type c12Server struct {
	nitems   int
	expected kmip.Operation
	lastReq  *kmip.RequestMessage
	calls    int
}

// respond builds an arbitrary response: symbolic batch count, per item symbolic
// operation/status/reason and one of {no payload, the expected payload type,
// a payload of another operation, an unknown payload}.
func (s *c12Server) respond(req *kmip.RequestMessage) *kmip.ResponseMessage {
	resp := &kmip.ResponseMessage{}
	resp.Header.ProtocolVersion = req.Header.ProtocolVersion
	resp.Header.BatchCount = verifNondetInt32("batchcount")
	for i := 0; i < s.nitems; i++ {
		it := kmip.ResponseBatchItem{
			Operation:    kmip.Operation(verifNondetUint32("op")),
			ResultStatus: kmip.ResultStatus(verifNondetUint32("status")),
			ResultReason: kmip.ResultReason(verifNondetUint32("reason")),
		}
		switch verifChoose("payload", 4) {
		case 0:
		case 1:
			it.ResponsePayload = c12NewResponse(s.expected)
		case 2:
			other := kmip.OperationDestroy
			if s.expected == kmip.OperationDestroy {
				other = kmip.OperationActivate
			}
			it.ResponsePayload = c12NewResponse(other)
		case 3:
			it.ResponsePayload = kmip.NewUnknownPayload(s.expected)
		}
		resp.BatchItem = append(resp.BatchItem, it)
	}
	return resp
}

func c12NewResponse(op kmip.Operation) kmip.OperationPayload {
	// the registry is reached through the decoder of a batch item in real use;
	// here the zero value of the registered response type is enough
	switch op {
	case kmip.OperationActivate:
		return &payloads.ActivateResponsePayload{}
	case kmip.OperationDestroy:
		return &payloads.DestroyResponsePayload{}
	case kmip.OperationGet:
		return &payloads.GetResponsePayload{}
	case kmip.OperationGetAttributes:
		return &payloads.GetAttributesResponsePayload{}
	case kmip.OperationGetAttributeList:
		return &payloads.GetAttributeListResponsePayload{}
	case kmip.OperationAddAttribute:
		return &payloads.AddAttributeResponsePayload{}
	case kmip.OperationModifyAttribute:
		return &payloads.ModifyAttributeResponsePayload{}
	case kmip.OperationDeleteAttribute:
		return &payloads.DeleteAttributeResponsePayload{}
	case kmip.OperationArchive:
		return &payloads.ArchiveResponsePayload{}
	case kmip.OperationRecover:
		return &payloads.RecoverResponsePayload{}
	case kmip.OperationObtainLease:
		return &payloads.ObtainLeaseResponsePayload{}
	case kmip.OperationGetUsageAllocation:
		return &payloads.GetUsageAllocationResponsePayload{}
	case kmip.OperationRevoke:
		return &payloads.RevokeResponsePayload{}
	case kmip.OperationReKey:
		return &payloads.RekeyResponsePayload{}
	case kmip.OperationLocate:
		return &payloads.LocateResponsePayload{}
	case kmip.OperationQuery:
		return &payloads.QueryResponsePayload{}
	case kmip.OperationExport:
		return &payloads.ExportResponsePayload{}
	case kmip.OperationCreate:
		return &payloads.CreateResponsePayload{}
	case kmip.OperationDiscoverVersions:
		return &payloads.DiscoverVersionsResponsePayload{}
	}
	return kmip.NewUnknownPayload(op)
}

func c12Client(s *c12Server) *Client {
	v := kmip.V1_4
	return &Client{
		lock:              new(sync.Mutex),
		version:           &v,
		supportedVersions: []kmip.ProtocolVersion{kmip.V1_4},
		middlewares: []Middleware{func(next Next, ctx context.Context, msg *kmip.RequestMessage) (*kmip.ResponseMessage, error) {
			s.calls++
			s.lastReq = msg
			return s.respond(msg), nil
		}},
	}
}

type c12Call struct {
	op   kmip.Operation
	call func(c *Client) (kmip.OperationPayload, bool, error)
}

// every call returns (payload as interface, payload pointer is non-nil, error)
var c12Calls = []c12Call{
	{kmip.OperationActivate, func(c *Client) (kmip.OperationPayload, bool, error) { r, err := c.Activate("id").Exec(); return r, r != nil, err }},
	{kmip.OperationDestroy, func(c *Client) (kmip.OperationPayload, bool, error) { r, err := c.Destroy("id").Exec(); return r, r != nil, err }},
	{kmip.OperationGet, func(c *Client) (kmip.OperationPayload, bool, error) { r, err := c.Get("id").Exec(); return r, r != nil, err }},
	{kmip.OperationGetAttributes, func(c *Client) (kmip.OperationPayload, bool, error) {
		r, err := c.GetAttributes("id").Exec()
		return r, r != nil, err
	}},
	{kmip.OperationGetAttributeList, func(c *Client) (kmip.OperationPayload, bool, error) {
		r, err := c.GetAttributeList("id").Exec()
		return r, r != nil, err
	}},
	{kmip.OperationAddAttribute, func(c *Client) (kmip.OperationPayload, bool, error) {
		r, err := c.AddAttribute("id", kmip.AttributeNameComment, "x").Exec()
		return r, r != nil, err
	}},
	{kmip.OperationModifyAttribute, func(c *Client) (kmip.OperationPayload, bool, error) {
		r, err := c.ModifyAttribute("id", kmip.AttributeNameComment, "x").Exec()
		return r, r != nil, err
	}},
	{kmip.OperationDeleteAttribute, func(c *Client) (kmip.OperationPayload, bool, error) {
		r, err := c.DeleteAttribute("id", kmip.AttributeNameComment).Exec()
		return r, r != nil, err
	}},
	{kmip.OperationArchive, func(c *Client) (kmip.OperationPayload, bool, error) { r, err := c.Archive("id").Exec(); return r, r != nil, err }},
	{kmip.OperationRecover, func(c *Client) (kmip.OperationPayload, bool, error) { r, err := c.Recover("id").Exec(); return r, r != nil, err }},
	{kmip.OperationObtainLease, func(c *Client) (kmip.OperationPayload, bool, error) {
		r, err := c.ObtainLease("id").Exec()
		return r, r != nil, err
	}},
	{kmip.OperationGetUsageAllocation, func(c *Client) (kmip.OperationPayload, bool, error) {
		r, err := c.GetUsageAllocation("id", 1).Exec()
		return r, r != nil, err
	}},
	{kmip.OperationRevoke, func(c *Client) (kmip.OperationPayload, bool, error) { r, err := c.Revoke("id").Exec(); return r, r != nil, err }},
	{kmip.OperationReKey, func(c *Client) (kmip.OperationPayload, bool, error) { r, err := c.Rekey("id").Exec(); return r, r != nil, err }},
	{kmip.OperationLocate, func(c *Client) (kmip.OperationPayload, bool, error) { r, err := c.Locate().Exec(); return r, r != nil, err }},
	{kmip.OperationQuery, func(c *Client) (kmip.OperationPayload, bool, error) { r, err := c.Query().Exec(); return r, r != nil, err }},
	{kmip.OperationExport, func(c *Client) (kmip.OperationPayload, bool, error) { r, err := c.Export("id").Exec(); return r, r != nil, err }},
	{kmip.OperationCreate, func(c *Client) (kmip.OperationPayload, bool, error) {
		r, err := c.Create().AES(256, kmip.CryptographicUsageEncrypt).Exec()
		return r, r != nil, err
	}},
}

// VerifC12_Exec: fluent call number callIdx against a server answering with
// nitems arbitrary items.
func VerifC12_Exec(callIdx, nitems int) {
	if callIdx >= len(c12Calls) {
		return
	}
	call := c12Calls[callIdx]
	s := &c12Server{nitems: nitems, expected: call.op}
	c := c12Client(s)
	r, nonNil, err := call.call(c) // a panic escaping here is a violation
	verifReach("returned")
	if err == nil {
		verifReach("success")
		verifAssert("success carries a payload", nonNil)
		if nonNil {
			verifAssert("payload belongs to the requested operation", r.Operation() == call.op)
		}
	}
}

// VerifC12_Request: the generic entry points Request / Batch + Unwrap.
func VerifC12_Request(nitems int) {
	s := &c12Server{nitems: nitems, expected: kmip.OperationActivate}
	c := c12Client(s)
	pl, err := c.Request(context.Background(), &payloads.ActivateRequestPayload{UniqueIdentifier: "id"})
	verifReach("returned")
	if err == nil {
		verifAssert("Request: success only with a single successful item", nitems == 1)
		_ = pl
	}
}

func VerifC12_Batch(nreq, nitems int) {
	s := &c12Server{nitems: nitems, expected: kmip.OperationActivate}
	c := c12Client(s)
	reqs := make([]kmip.OperationPayload, nreq)
	for i := range reqs {
		reqs[i] = &payloads.ActivateRequestPayload{UniqueIdentifier: "id"}
	}
	res, err := c.Batch(context.Background(), reqs...)
	verifReach("returned")
	if err != nil {
		return
	}
	verifAssert("Batch: one item per request", len(res) == nreq && nitems == nreq)
	anyFailed := false
	for _, it := range res {
		if it.ResultStatus != kmip.ResultStatusSuccess {
			anyFailed = true
			verifAssert("failed item surfaces as error", it.Err() != nil)
		} else {
			verifAssert("successful item has no error", it.Err() == nil)
		}
	}
	_, uerr := res.Unwrap()
	verifAssert("Unwrap error iff some item failed", (uerr != nil) == anyFailed)
}

// VerifC12_Negotiate: the version-discovery exchange at connect time against an
// arbitrary response.
func VerifC12_Negotiate(nitems int) {
	s := &c12Server{nitems: nitems, expected: kmip.OperationDiscoverVersions}
	c := c12Client(s)
	c.version = nil
	err := c.negotiateVersion(context.Background())
	verifReach("returned")
	if err == nil {
		verifAssert("negotiated version is set", c.version != nil)
	}
}
