package kmipclient

// C14 — key material survives registration, transport and extraction:
// builder/accessor agreement. The cryptographic libraries are uninterpreted
// (marshal/parse pairs inverse by assumption, see gosym/crypto.go), so what is
// decided is the library's own part: which format and material slot a builder
// fills for a requested key format and protocol version, that the same slot is
// read back by the accessor after a trip over the wire, big-integer transport,
// and that the curve is mapped the same way in both directions.

import (
	"crypto/ecdsa"
	"crypto/elliptic"
	"crypto/rsa"
	"math/big"
	"sync"

	"github.com/ovh/kmip-go"
	"github.com/ovh/kmip-go/payloads"
	"github.com/ovh/kmip-go/ttlv"
)

func c14Big(name string, n int) *big.Int {
	b := verifNondetBytes(name, n)
	verifAssume(b[0] != 0)
	return new(big.Int).SetBytes(b)
}

// c14BigLow: top bit clear (no sign padding decision: keeps the number of
// paths of keys with many integers small; the top-bit cases are covered by
// the integers built with c14Big and by C03/C01)
func c14BigLow(name string, n int) *big.Int {
	b := verifNondetBytes(name, n)
	verifAssume(b[0] != 0 && b[0] < 0x80)
	return new(big.Int).SetBytes(b)
}

var c14Formats = []KeyFormat{0, Transparent, X509, PKCS8, PKCS1, SEC1, RAW, Transparent | X509 | PKCS8 | PKCS1 | SEC1 | RAW}

func c14Curve(i int) elliptic.Curve {
	switch i {
	case 0:
		return elliptic.P224()
	case 1:
		return elliptic.P256()
	case 2:
		return elliptic.P384()
	default:
		return elliptic.P521()
	}
}

// VerifC14_Builder: kind 0 RSA public, 1 RSA private, 2 ECDSA public, 3 ECDSA
// private, 4 symmetric key, 5 secret; fmtIdx selects the requested key format;
// protocol version 1.minor; curveIdx for the ECDSA kinds.
func VerifC14_Builder(kind, fmtIdx, minor, curveIdx int) {
	v := kmip.ProtocolVersion{ProtocolVersionMajor: 1, ProtocolVersionMinor: int32(minor)}
	c := &Client{lock: new(sync.Mutex), version: &v, supportedVersions: []kmip.ProtocolVersion{v}}
	ex := c.Register().WithKeyFormat(c14Formats[fmtIdx%len(c14Formats)])
	usage := kmip.CryptographicUsageMask(verifNondetInt32("usage"))
	var reg ExecRegister
	var rsaPub rsa.PublicKey
	var rsaPriv rsa.PrivateKey
	var ecPub ecdsa.PublicKey
	var ecPriv ecdsa.PrivateKey
	var sym []byte
	switch kind {
	case 0:
		rsaPub = rsa.PublicKey{N: c14Big("N", 3), E: int(verifNondetInt32("E"))}
		reg = ex.RsaPublicKey(&rsaPub, usage)
	case 1:
		rsaPriv = rsa.PrivateKey{PublicKey: rsa.PublicKey{N: c14Big("N", 3), E: int(verifNondetInt32("E"))}, D: c14Big("D", 3), Primes: []*big.Int{c14BigLow("P", 2), c14BigLow("Q", 2)}}
		rsaPriv.Precomputed.Dp, rsaPriv.Precomputed.Dq, rsaPriv.Precomputed.Qinv = c14BigLow("Dp", 2), c14BigLow("Dq", 2), c14BigLow("Qinv", 2)
		reg = ex.RsaPrivateKey(&rsaPriv, usage)
	case 2:
		ecPub = ecdsa.PublicKey{Curve: c14Curve(curveIdx), X: c14Big("X", 3), Y: c14Big("Y", 3)}
		reg = ex.EcdsaPublicKey(&ecPub, usage)
	case 3:
		ecPriv = ecdsa.PrivateKey{PublicKey: ecdsa.PublicKey{Curve: c14Curve(curveIdx), X: c14Big("X", 3), Y: c14Big("Y", 3)}, D: c14Big("D", 3)}
		reg = ex.EcdsaPrivateKey(&ecPriv, usage)
	case 4:
		sym = verifNondetBytes("key", 16)
		reg = ex.SymmetricKey(kmip.CryptographicAlgorithmAES, usage, sym)
	default:
		sym = verifNondetBytes("secret", 5)
		reg = ex.Secret(kmip.SecretDataTypePassword, sym)
	}
	pl, err := reg.Build()
	verifAssert("the builder accepts the key", err == nil && pl != nil)
	if err != nil || pl == nil {
		return
	}
	// over the wire: request at the client's version
	req := kmip.NewRequestMessage(v, pl)
	wire := ttlv.MarshalTTLV(&req)
	var back kmip.RequestMessage
	derr := ttlv.UnmarshalTTLV(append([]byte(nil), wire...), &back)
	verifAssert("the registered object survives the wire", derr == nil && len(back.BatchItem) == 1)
	if derr != nil || len(back.BatchItem) != 1 {
		return
	}
	rp, ok := back.BatchItem[0].RequestPayload.(*payloads.RegisterRequestPayload)
	verifAssert("register payload", ok && rp != nil && rp.Object != nil)
	if !ok || rp == nil || rp.Object == nil {
		return
	}
	// what a later Get would return
	get := &payloads.GetResponsePayload{ObjectType: rp.ObjectType, UniqueIdentifier: "id", Object: rp.Object}
	switch kind {
	case 0:
		k, err := get.RsaPublicKey()
		verifAssert("RSA public key extracted", err == nil && k != nil)
		if err == nil && k != nil {
			verifAssert("same modulus and exponent", k.N != nil && k.N.Cmp(rsaPub.N) == 0 && k.E == rsaPub.E)
		}
	case 1:
		k, err := get.RsaPrivateKey()
		verifAssert("RSA private key extracted", err == nil && k != nil)
		if err == nil && k != nil {
			same := k.N != nil && k.D != nil && k.N.Cmp(rsaPriv.N) == 0 && k.E == rsaPriv.E && k.D.Cmp(rsaPriv.D) == 0 && len(k.Primes) == 2 &&
				k.Primes[0] != nil && k.Primes[1] != nil && k.Primes[0].Cmp(rsaPriv.Primes[0]) == 0 && k.Primes[1].Cmp(rsaPriv.Primes[1]) == 0
			verifAssert("same modulus, exponents and primes", same)
		}
	case 2:
		k, err := get.EcdsaPublicKey()
		verifAssert("ECDSA public key extracted", err == nil && k != nil)
		if err == nil && k != nil {
			verifAssert("same curve", k.Curve == ecPub.Curve)
			verifAssert("same point", k.X != nil && k.Y != nil && k.X.Cmp(ecPub.X) == 0 && k.Y.Cmp(ecPub.Y) == 0)
		}
	case 3:
		k, err := get.EcdsaPrivateKey()
		verifAssert("ECDSA private key extracted", err == nil && k != nil)
		if err == nil && k != nil {
			verifAssert("same curve", k.Curve == ecPriv.Curve)
			verifAssert("same scalar", k.D != nil && k.D.Cmp(ecPriv.D) == 0)
		}
	case 4:
		k, err := get.SymmetricKey()
		verifAssert("symmetric key extracted", err == nil)
		if err == nil {
			verifAssert("same key bytes", verifBytesEq(k, sym))
		}
	default:
		k, err := get.Secret()
		verifAssert("secret extracted", err == nil)
		if err == nil {
			verifAssert("same secret bytes", verifBytesEq(k, sym))
		}
	}
}
