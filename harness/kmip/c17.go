package kmip

// C17 — MarshalText/UnmarshalText of every enumeration type round-trip for an
// arbitrary 32-bit value (registered name or 0x%08X fallback).

func c17Text(idx int, v uint32) (text []byte, back uint32, err1, err2 error) {
	return c17TextM(idx, v, true)
}

func c17TextM(idx int, v uint32, parse bool) (text []byte, back uint32, err1, err2 error) {
	switch idx {
	case 0:
		x := AlternativeNameType(v)
		text, err1 = x.MarshalText()
		var y AlternativeNameType
		if parse {
			err2 = y.UnmarshalText(text)
		}
		back = uint32(y)
	case 1:
		x := AttestationType(v)
		text, err1 = x.MarshalText()
		var y AttestationType
		if parse {
			err2 = y.UnmarshalText(text)
		}
		back = uint32(y)
	case 2:
		x := BatchErrorContinuationOption(v)
		text, err1 = x.MarshalText()
		var y BatchErrorContinuationOption
		if parse {
			err2 = y.UnmarshalText(text)
		}
		back = uint32(y)
	case 3:
		x := BlockCipherMode(v)
		text, err1 = x.MarshalText()
		var y BlockCipherMode
		if parse {
			err2 = y.UnmarshalText(text)
		}
		back = uint32(y)
	case 4:
		x := CancellationResult(v)
		text, err1 = x.MarshalText()
		var y CancellationResult
		if parse {
			err2 = y.UnmarshalText(text)
		}
		back = uint32(y)
	case 5:
		x := CertificateRequestType(v)
		text, err1 = x.MarshalText()
		var y CertificateRequestType
		if parse {
			err2 = y.UnmarshalText(text)
		}
		back = uint32(y)
	case 6:
		x := CertificateType(v)
		text, err1 = x.MarshalText()
		var y CertificateType
		if parse {
			err2 = y.UnmarshalText(text)
		}
		back = uint32(y)
	case 7:
		x := ClientRegistrationMethod(v)
		text, err1 = x.MarshalText()
		var y ClientRegistrationMethod
		if parse {
			err2 = y.UnmarshalText(text)
		}
		back = uint32(y)
	case 8:
		x := CredentialType(v)
		text, err1 = x.MarshalText()
		var y CredentialType
		if parse {
			err2 = y.UnmarshalText(text)
		}
		back = uint32(y)
	case 9:
		x := CryptographicAlgorithm(v)
		text, err1 = x.MarshalText()
		var y CryptographicAlgorithm
		if parse {
			err2 = y.UnmarshalText(text)
		}
		back = uint32(y)
	case 10:
		x := DRBGAlgorithm(v)
		text, err1 = x.MarshalText()
		var y DRBGAlgorithm
		if parse {
			err2 = y.UnmarshalText(text)
		}
		back = uint32(y)
	case 11:
		x := DestroyAction(v)
		text, err1 = x.MarshalText()
		var y DestroyAction
		if parse {
			err2 = y.UnmarshalText(text)
		}
		back = uint32(y)
	case 12:
		x := DigitalSignatureAlgorithm(v)
		text, err1 = x.MarshalText()
		var y DigitalSignatureAlgorithm
		if parse {
			err2 = y.UnmarshalText(text)
		}
		back = uint32(y)
	case 13:
		x := EncodingOption(v)
		text, err1 = x.MarshalText()
		var y EncodingOption
		if parse {
			err2 = y.UnmarshalText(text)
		}
		back = uint32(y)
	case 14:
		x := FIPS186Variation(v)
		text, err1 = x.MarshalText()
		var y FIPS186Variation
		if parse {
			err2 = y.UnmarshalText(text)
		}
		back = uint32(y)
	case 15:
		x := HashingAlgorithm(v)
		text, err1 = x.MarshalText()
		var y HashingAlgorithm
		if parse {
			err2 = y.UnmarshalText(text)
		}
		back = uint32(y)
	case 16:
		x := KeyCompressionType(v)
		text, err1 = x.MarshalText()
		var y KeyCompressionType
		if parse {
			err2 = y.UnmarshalText(text)
		}
		back = uint32(y)
	case 17:
		x := KeyFormatType(v)
		text, err1 = x.MarshalText()
		var y KeyFormatType
		if parse {
			err2 = y.UnmarshalText(text)
		}
		back = uint32(y)
	case 18:
		x := KeyRoleType(v)
		text, err1 = x.MarshalText()
		var y KeyRoleType
		if parse {
			err2 = y.UnmarshalText(text)
		}
		back = uint32(y)
	case 19:
		x := KeyValueLocationType(v)
		text, err1 = x.MarshalText()
		var y KeyValueLocationType
		if parse {
			err2 = y.UnmarshalText(text)
		}
		back = uint32(y)
	case 20:
		x := KeyWrapType(v)
		text, err1 = x.MarshalText()
		var y KeyWrapType
		if parse {
			err2 = y.UnmarshalText(text)
		}
		back = uint32(y)
	case 21:
		x := LinkType(v)
		text, err1 = x.MarshalText()
		var y LinkType
		if parse {
			err2 = y.UnmarshalText(text)
		}
		back = uint32(y)
	case 22:
		x := MaskGenerator(v)
		text, err1 = x.MarshalText()
		var y MaskGenerator
		if parse {
			err2 = y.UnmarshalText(text)
		}
		back = uint32(y)
	case 23:
		x := NameType(v)
		text, err1 = x.MarshalText()
		var y NameType
		if parse {
			err2 = y.UnmarshalText(text)
		}
		back = uint32(y)
	case 24:
		x := ObjectGroupMember(v)
		text, err1 = x.MarshalText()
		var y ObjectGroupMember
		if parse {
			err2 = y.UnmarshalText(text)
		}
		back = uint32(y)
	case 25:
		x := ObjectType(v)
		text, err1 = x.MarshalText()
		var y ObjectType
		if parse {
			err2 = y.UnmarshalText(text)
		}
		back = uint32(y)
	case 26:
		x := OpaqueDataType(v)
		text, err1 = x.MarshalText()
		var y OpaqueDataType
		if parse {
			err2 = y.UnmarshalText(text)
		}
		back = uint32(y)
	case 27:
		x := Operation(v)
		text, err1 = x.MarshalText()
		var y Operation
		if parse {
			err2 = y.UnmarshalText(text)
		}
		back = uint32(y)
	case 28:
		x := PaddingMethod(v)
		text, err1 = x.MarshalText()
		var y PaddingMethod
		if parse {
			err2 = y.UnmarshalText(text)
		}
		back = uint32(y)
	case 29:
		x := ProfileName(v)
		text, err1 = x.MarshalText()
		var y ProfileName
		if parse {
			err2 = y.UnmarshalText(text)
		}
		back = uint32(y)
	case 30:
		x := PutFunction(v)
		text, err1 = x.MarshalText()
		var y PutFunction
		if parse {
			err2 = y.UnmarshalText(text)
		}
		back = uint32(y)
	case 31:
		x := QueryFunction(v)
		text, err1 = x.MarshalText()
		var y QueryFunction
		if parse {
			err2 = y.UnmarshalText(text)
		}
		back = uint32(y)
	case 32:
		x := RNGAlgorithm(v)
		text, err1 = x.MarshalText()
		var y RNGAlgorithm
		if parse {
			err2 = y.UnmarshalText(text)
		}
		back = uint32(y)
	case 33:
		x := RNGMode(v)
		text, err1 = x.MarshalText()
		var y RNGMode
		if parse {
			err2 = y.UnmarshalText(text)
		}
		back = uint32(y)
	case 34:
		x := RecommendedCurve(v)
		text, err1 = x.MarshalText()
		var y RecommendedCurve
		if parse {
			err2 = y.UnmarshalText(text)
		}
		back = uint32(y)
	case 35:
		x := ResultReason(v)
		text, err1 = x.MarshalText()
		var y ResultReason
		if parse {
			err2 = y.UnmarshalText(text)
		}
		back = uint32(y)
	case 36:
		x := ResultStatus(v)
		text, err1 = x.MarshalText()
		var y ResultStatus
		if parse {
			err2 = y.UnmarshalText(text)
		}
		back = uint32(y)
	case 37:
		x := RevocationReasonCode(v)
		text, err1 = x.MarshalText()
		var y RevocationReasonCode
		if parse {
			err2 = y.UnmarshalText(text)
		}
		back = uint32(y)
	case 38:
		x := SecretDataType(v)
		text, err1 = x.MarshalText()
		var y SecretDataType
		if parse {
			err2 = y.UnmarshalText(text)
		}
		back = uint32(y)
	case 39:
		x := ShreddingAlgorithm(v)
		text, err1 = x.MarshalText()
		var y ShreddingAlgorithm
		if parse {
			err2 = y.UnmarshalText(text)
		}
		back = uint32(y)
	case 40:
		x := SplitKeyMethod(v)
		text, err1 = x.MarshalText()
		var y SplitKeyMethod
		if parse {
			err2 = y.UnmarshalText(text)
		}
		back = uint32(y)
	case 41:
		x := State(v)
		text, err1 = x.MarshalText()
		var y State
		if parse {
			err2 = y.UnmarshalText(text)
		}
		back = uint32(y)
	case 42:
		x := UnwrapMode(v)
		text, err1 = x.MarshalText()
		var y UnwrapMode
		if parse {
			err2 = y.UnmarshalText(text)
		}
		back = uint32(y)
	case 43:
		x := UsageLimitsUnit(v)
		text, err1 = x.MarshalText()
		var y UsageLimitsUnit
		if parse {
			err2 = y.UnmarshalText(text)
		}
		back = uint32(y)
	case 44:
		x := ValidationAuthorityType(v)
		text, err1 = x.MarshalText()
		var y ValidationAuthorityType
		if parse {
			err2 = y.UnmarshalText(text)
		}
		back = uint32(y)
	case 45:
		x := ValidationType(v)
		text, err1 = x.MarshalText()
		var y ValidationType
		if parse {
			err2 = y.UnmarshalText(text)
		}
		back = uint32(y)
	case 46:
		x := ValidityIndicator(v)
		text, err1 = x.MarshalText()
		var y ValidityIndicator
		if parse {
			err2 = y.UnmarshalText(text)
		}
		back = uint32(y)
	case 47:
		x := WrappingMethod(v)
		text, err1 = x.MarshalText()
		var y WrappingMethod
		if parse {
			err2 = y.UnmarshalText(text)
		}
		back = uint32(y)
	}
	return
}

func VerifC17_Text(idx, mode int) {
	if idx >= 48 {
		return
	}
	v := verifNondetUint32("v")
	verifConfig("real-names")
	x := c17Marshal(idx, v)
	isHex := len(x) > 1 && x[0] == '0' && x[1] == 'x'
	// mode 0: registered values (written by name); mode 1: unregistered values
	// (written as 0x%08X, parsed back digit by digit)
	verifAssume(isHex == (mode == 1))
	text, back, err1, err2 := c17Text(idx, v)
	verifAssert("MarshalText succeeds", err1 == nil && len(text) > 0)
	verifAssert("UnmarshalText accepts what MarshalText wrote", err2 == nil)
	verifAssert("text round trip gives the same value", back == v)
}

func c17Marshal(idx int, v uint32) []byte {
	text, _, _, _ := c17TextM(idx, v, false)
	return text
}
