package kmip

// C02 (nesting) / C18 (lenient decoding) / C04 (same information in the three
// encodings): a typed message with one extra, unknown element inserted at any
// position of any of its structures is decoded from its binary and from its XML
// form; the two decoders must agree on acceptance and on the decoded value, and
// nothing that lies inside a structure may be taken for a sibling of that
// structure. The unknown element is a leaf, an empty structure, or a structure
// with one or two children (one of which may be a structure again, or carry the
// tag of a field the enclosing message knows). The real encoding/xml tokeniser
// runs on the (concrete) document.

import (
	"reflect"

	"github.com/ovh/kmip-go/ttlv"
)

var c02WithJSON = true

// c02Unknown: the element to insert. knownTag: a tag the message's types know.
func c02Unknown(kind int) ttlv.Value {
	leaf := ttlv.Value{Tag: 0x540001, Value: int32(7)}
	leaf2 := ttlv.Value{Tag: TagBatchCount, Value: int32(5)} // looks like a header field
	leaf3 := ttlv.Value{Tag: TagUniqueIdentifier, Value: "intruder"}
	switch kind {
	case 0:
		return leaf
	case 1:
		return ttlv.Value{Tag: 0x540002, Value: ttlv.Struct{}}
	case 2:
		return ttlv.Value{Tag: 0x540002, Value: ttlv.Struct{leaf}}
	case 3:
		return ttlv.Value{Tag: 0x540002, Value: ttlv.Struct{leaf, leaf2}}
	case 4:
		return ttlv.Value{Tag: 0x540002, Value: ttlv.Struct{ttlv.Value{Tag: 0x540003, Value: ttlv.Struct{leaf3}}, leaf2}}
	case 5:
		return ttlv.Value{Tag: 0x540002, Value: ttlv.Struct{leaf3, ttlv.Value{Tag: 0x540003, Value: ttlv.Struct{}}, leaf2}}
	default:
		return leaf2
	}
}

// c02Insert inserts u as child number pos of structure number *node (depth
// first); reports whether it did.
func c02Insert(v *ttlv.Value, node *int, pos int, u ttlv.Value) bool {
	st, ok := v.Value.(ttlv.Struct)
	if !ok {
		return false
	}
	if *node == 0 {
		if pos > len(st) {
			return false
		}
		out := make(ttlv.Struct, 0, len(st)+1)
		out = append(out, st[:pos]...)
		out = append(out, u)
		out = append(out, st[pos:]...)
		v.Value = out
		*node = -1
		return true
	}
	*node--
	for i := range st {
		if c02Insert(&st[i], node, pos, u) {
			return true
		}
		if *node < 0 {
			return false
		}
	}
	return false
}

func c02NestMessage(dir int) any {
	if dir == 0 {
		pl := newRequestPayload(OperationActivate)
		reflect.ValueOf(pl).Elem().FieldByName("UniqueIdentifier").SetString("id-1")
		m := &RequestMessage{}
		m.Header.ProtocolVersion = ProtocolVersion{ProtocolVersionMajor: 1, ProtocolVersionMinor: 4}
		m.Header.BatchCount = 1
		m.BatchItem = []RequestBatchItem{{Operation: OperationActivate, RequestPayload: pl}}
		return m
	}
	pl := newResponsePayload(OperationActivate)
	reflect.ValueOf(pl).Elem().FieldByName("UniqueIdentifier").SetString("id-1")
	m := &ResponseMessage{}
	m.Header.ProtocolVersion = ProtocolVersion{ProtocolVersionMajor: 1, ProtocolVersionMinor: 4}
	m.Header.BatchCount = 1
	m.BatchItem = []ResponseBatchItem{{Operation: OperationActivate, ResultStatus: ResultStatusSuccess, ResponsePayload: pl}}
	return m
}

func c02DecodeAs(dir, enc int, b []byte) (reflect.Value, error) {
	if dir == 0 {
		var m RequestMessage
		var err error
		switch enc {
		case 0:
			err = ttlv.UnmarshalTTLV(b, &m)
		case 1:
			err = ttlv.UnmarshalXML(b, &m)
		default:
			err = ttlv.UnmarshalJSON(b, &m)
		}
		return reflect.ValueOf(&m).Elem(), err
	}
	var m ResponseMessage
	var err error
	switch enc {
	case 0:
		err = ttlv.UnmarshalTTLV(b, &m)
	case 1:
		err = ttlv.UnmarshalXML(b, &m)
	default:
		err = ttlv.UnmarshalJSON(b, &m)
	}
	return reflect.ValueOf(&m).Elem(), err
}

// VerifC02_Nesting: dir 0 request / 1 response; node = structure number (depth
// first), pos = child position, kind = shape of the unknown element.
func VerifC02_Nesting(dir, node, pos, kind int) {
	wire := ttlv.MarshalTTLV(c02NestMessage(dir))
	var tree ttlv.Value
	if err := ttlv.UnmarshalTTLV(wire, &tree); err != nil {
		verifAssert("generic decode of a valid message", false)
		return
	}
	n := node
	// kinds 7 and 8: two unknown elements in a row (a leaf and a leaf, a structure and a leaf)
	first, second := kind, -1
	switch kind {
	case 7:
		first, second = 0, 0
	case 8:
		first, second = 3, 0
	}
	if !c02Insert(&tree, &n, pos, c02Unknown(first)) {
		verifReach("no such position")
		return
	}
	if second >= 0 {
		n = node
		if !c02Insert(&tree, &n, pos+1, c02Unknown(second)) {
			verifReach("no such position")
			return
		}
	}
	bin := ttlv.MarshalTTLV(tree)
	xmlDoc := ttlv.MarshalXML(tree)
	vb, errB := c02DecodeAs(dir, 0, bin)
	vx, errX := c02DecodeAs(dir, 1, xmlDoc) // a panic here is a violation
	if c02WithJSON {
		vj, errJ := c02DecodeAs(dir, 2, ttlv.MarshalJSON(tree))
		verifAssert("JSON and binary decoders agree on acceptance", (errB == nil) == (errJ == nil))
		if errB == nil && errJ == nil {
			verifAssert("JSON and binary decoders give the same value", vfEqual(vb, vj))
		}
	}
	verifReach("decoded")
	verifObserveBool("binary accepts", errB == nil)
	verifObserveBool("xml accepts", errX == nil)
	verifAssert("XML and binary decoders agree on acceptance", (errB == nil) == (errX == nil))
	if errB != nil || errX != nil {
		return
	}
	verifReach("accepted")
	verifAssert("XML and binary decoders give the same value", vfEqual(vb, vx))
	// C18 for typed targets through the text encodings (lenient decoding): what
	// was accepted re-encodes to a fixed point
	for _, enc := range []int{1, 2} {
		var e1 []byte
		if enc == 1 {
			e1 = append([]byte(nil), ttlv.MarshalXML(vx.Addr().Interface())...)
		} else {
			e1 = append([]byte(nil), ttlv.MarshalJSON(vx.Addr().Interface())...)
		}
		v2, err2 := c02DecodeAs(dir, enc, e1)
		verifAssert("re-encoding of the accepted message decodes again", err2 == nil)
		if err2 != nil {
			continue
		}
		verifAssert("same value after the re-encoding", vfEqual(vx, v2))
		var e2 []byte
		if enc == 1 {
			e2 = ttlv.MarshalXML(v2.Addr().Interface())
		} else {
			e2 = ttlv.MarshalJSON(v2.Addr().Interface())
		}
		verifAssert("second re-encoding is byte-identical", verifBytesEq(e1, e2))
	}
	// nothing from inside the unknown element may surface in the message: its
	// children carry the values 5 (as a BatchCount) and "intruder"
	if kind == 6 {
		// the inserted element is itself a header field, not an unknown element
		return
	}
	out := ttlv.MarshalTTLV(vb.Addr().Interface())
	verifAssert("content of an unknown element is not taken for content of the message", !c02Contains(out, []byte("intruder")) && c02BatchCount(vb) != 5)
}

func c02Contains(b, pat []byte) bool {
	for i := 0; i+len(pat) <= len(b); i++ {
		j := 0
		for j < len(pat) && b[i+j] == pat[j] {
			j++
		}
		if j == len(pat) {
			return true
		}
	}
	return false
}

func c02BatchCount(m reflect.Value) int32 {
	return int32(m.FieldByName("Header").FieldByName("BatchCount").Int())
}
