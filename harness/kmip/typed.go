package kmip

// Typed-message harness support: a reflection-driven populator that builds a
// well-formed message of a chosen *shape* (which optional parts exist, slice
// and string lengths, dynamic types, key formats) whose every scalar, byte and
// big-integer digit is a fresh symbolic variable, and a content-equality
// relation. Runs unchanged natively (values come from the replayed model).

import (
	"math/big"
	"reflect"
	"slices"
	"strings"
	"time"

	"github.com/ovh/kmip-go/ttlv"
)

type vfShape struct {
	minor    int  // protocol version 1.minor
	minimal  bool // optional parts absent (nil pointers, empty slices, empty strings)
	zero     bool // omitempty scalars are zero (absent) instead of assumed non-zero
	objIdx   int  // object type used for Object-typed fields
	fmtIdx   int  // key format used for key blocks
	attrIdx  int  // attribute used for Attribute values
	credIdx  int  // credential type
	wrapped  bool // key value is wrapped bytes instead of plain
	strLen   int
	bytesLen int
	bigLen   int
	bigNeg   bool
	sliceLen int
	noGate   bool // populate fields regardless of their version annotation (C05)
	onlyPath string
	text     bool // text-encoding friendly: enumerations and masks concrete, strings lower-case letters
}

var vfObjectTypes = []ObjectType{ObjectTypeCertificate, ObjectTypeSymmetricKey, ObjectTypePublicKey, ObjectTypePrivateKey, ObjectTypeSplitKey,
	ObjectTypeTemplate, ObjectTypeSecretData, ObjectTypeOpaqueObject, ObjectTypePGPKey}

var vfKeyFormats = []KeyFormatType{KeyFormatTypeRaw, KeyFormatTypeOpaque, KeyFormatTypePKCS_1, KeyFormatTypePKCS_8, KeyFormatTypeX_509, KeyFormatTypeECPrivateKey,
	KeyFormatTypeTransparentSymmetricKey, KeyFormatTypeTransparentRSAPrivateKey, KeyFormatTypeTransparentRSAPublicKey,
	KeyFormatTypeTransparentECDSAPrivateKey, KeyFormatTypeTransparentECDSAPublicKey, KeyFormatTypeTransparentECPrivateKey, KeyFormatTypeTransparentECPublicKey}

var vfCredTypes = []CredentialType{CredentialTypeUsernameAndPassword, CredentialTypeDevice, CredentialTypeAttestation}

func vfOperations() []Operation {
	ops := make([]Operation, 0, len(operationRegistry))
	for op := range operationRegistry {
		ops = append(ops, op)
	}
	slices.Sort(ops)
	return ops
}

// vfVersionOK: does the field's `version=` annotation admit protocol 1.minor?
// Annotation syntax (struct tags of the library): [v]A.B | [v]A.B..[[v]C.D]
func vfVersionOK(tag string, minor int) bool {
	i := strings.Index(tag, "version=")
	if i < 0 {
		return true
	}
	r := tag[i+len("version="):]
	if j := strings.IndexByte(r, ','); j >= 0 {
		r = r[:j]
	}
	parse := func(s string) (int, bool) {
		s = strings.TrimPrefix(s, "v")
		if len(s) != 3 || s[0] != '1' || s[1] != '.' {
			return 0, false
		}
		return int(s[2] - '0'), true
	}
	lo, hi, found := strings.Cut(r, "..")
	if !found {
		m, ok := parse(r)
		return ok && m == minor
	}
	if lo != "" {
		if m, ok := parse(lo); ok && minor < m {
			return false
		}
	}
	if hi != "" {
		if m, ok := parse(hi); ok && minor > m {
			return false
		}
	}
	return true
}

var (
	vfTimeT     = reflect.TypeFor[time.Time]()
	vfDurationT = reflect.TypeFor[time.Duration]()
	vfBigT      = reflect.TypeFor[big.Int]()
	vfObjectT   = reflect.TypeFor[Object]()
	vfAttrT     = reflect.TypeFor[Attribute]()
	vfKeyBlockT = reflect.TypeFor[KeyBlock]()
	vfCredT     = reflect.TypeFor[Credential]()
	vfPVT       = reflect.TypeFor[ProtocolVersion]()
	vfStructT   = reflect.TypeFor[ttlv.Struct]()
	vfValueT    = reflect.TypeFor[ttlv.Value]()
	vfAnyT      = reflect.TypeFor[any]()
)

func vfBig(path string, sh *vfShape) *big.Int {
	mag := verifNondetBytes(path, sh.bigLen)
	if sh.bigLen > 0 {
		verifAssume(mag[0] != 0)
		if sh.text {
			verifAssume(mag[0] < 0x80)
		}
	}
	v := new(big.Int).SetBytes(mag)
	if sh.bigNeg && sh.bigLen > 0 {
		v.Neg(v)
	}
	return v
}

func vfGeneric(path string) ttlv.Struct {
	return ttlv.Struct{
		ttlv.Value{Tag: 0x540001, Value: verifNondetInt32(path + ".0")},
		ttlv.Value{Tag: 0x540002, Value: ttlv.Struct{ttlv.Value{Tag: 0x540003, Value: verifNondetString(path+".1", 3)}}},
	}
}

// vfPopulate fills the settable value v. omit tells whether the field carries
// the omitempty option (its scalar is then assumed non-zero, or zero in
// sh.zero mode, so that presence on the wire is not a path split).
func vfPopulate(v reflect.Value, sh *vfShape, path string, omit bool) {
	t := v.Type()
	switch t {
	case vfTimeT:
		sec := verifNondetInt64(path)
		v.Set(reflect.ValueOf(time.Unix(sec, 0)))
		return
	case vfDurationT:
		k := verifNondetUint32(path)
		if sh.text {
			verifAssume(k >= 100 && k <= 999)
		}
		if omit {
			if sh.zero {
				k = 0
			} else {
				verifAssume(k != 0)
			}
		}
		v.SetInt(int64(time.Duration(k) * time.Second))
		return
	case vfBigT:
		v.Set(reflect.ValueOf(*vfBig(path, sh)))
		return
	case vfPVT:
		v.Set(reflect.ValueOf(ProtocolVersion{ProtocolVersionMajor: 1, ProtocolVersionMinor: int32(sh.minor)}))
		return
	case vfStructT:
		if !sh.minimal {
			v.Set(reflect.ValueOf(vfGeneric(path)))
		}
		return
	case vfValueT:
		v.Set(reflect.ValueOf(ttlv.Value{Tag: 0x540004, Value: verifNondetInt64(path)}))
		return
	case vfAttrT:
		vfAttribute(v, sh, path)
		return
	case vfKeyBlockT:
		vfKeyBlock(v, sh, path)
		return
	case vfCredT:
		vfCredential(v, sh, path)
		return
	}
	switch v.Kind() {
	case reflect.Bool:
		v.SetBool(verifNondetBool(path))
	case reflect.Int32:
		if sh.text && strings.HasSuffix(t.Name(), "Mask") {
			v.SetInt(0x0C)
			return
		}
		x := verifNondetInt32(path)
		if sh.text {
			// three-digit numbers: the lexical forms of all int32 are C04's item level
			verifAssume(x >= 100 && x <= 999)
		}
		if omit {
			if sh.zero {
				x = 0
			} else {
				verifAssume(x != 0)
			}
		}
		v.SetInt(int64(x))
	case reflect.Int64:
		x := verifNondetInt64(path)
		if sh.text {
			verifAssume(x >= 100 && x <= 999)
		}
		if omit {
			if sh.zero {
				x = 0
			} else {
				verifAssume(x != 0)
			}
		}
		v.SetInt(x)
	case reflect.Uint32:
		if sh.text {
			v.SetUint(1)
			return
		}
		x := verifNondetUint32(path)
		if omit {
			if sh.zero {
				x = 0
			} else {
				verifAssume(x != 0)
			}
		}
		v.SetUint(uint64(x))
	case reflect.String:
		n := sh.strLen
		if sh.minimal && omit {
			n = 0
		}
		str := verifNondetString(path, n)
		if sh.text {
			for i := 0; i < len(str); i++ {
				verifAssume(str[i] >= 'a' && str[i] <= 'z')
			}
		}
		v.SetString(str)
	case reflect.Slice:
		if t.Elem().Kind() == reflect.Uint8 {
			n := sh.bytesLen
			if sh.minimal && omit {
				n = 0
			}
			if n == 0 && omit {
				return
			}
			v.SetBytes(verifNondetBytes(path, n))
			return
		}
		n := sh.sliceLen
		if sh.minimal {
			n = 0
		}
		if n == 0 {
			return
		}
		s := reflect.MakeSlice(t, n, n)
		for i := 0; i < n; i++ {
			vfPopulate(s.Index(i), sh, path+"["+string(rune('0'+i))+"]", false)
		}
		v.Set(s)
	case reflect.Pointer:
		if sh.minimal {
			return
		}
		p := reflect.New(t.Elem())
		vfPopulate(p.Elem(), sh, path, false)
		v.Set(p)
	case reflect.Struct:
		vfStruct(v, sh, path)
	case reflect.Interface:
		if t == vfObjectT {
			obj, _ := NewObjectForType(vfObjectTypes[sh.objIdx])
			vfPopulate(reflect.ValueOf(obj).Elem(), sh, path, false)
			v.Set(reflect.ValueOf(obj))
		}
	}
}

func vfStruct(v reflect.Value, sh *vfShape, path string) {
	t := v.Type()
	hasObject := false
	for i := 0; i < t.NumField(); i++ {
		if t.Field(i).Type == vfObjectT {
			hasObject = true
		}
	}
	for i := 0; i < t.NumField(); i++ {
		f := t.Field(i)
		if !f.IsExported() {
			continue
		}
		tag, _ := f.Tag.Lookup("ttlv")
		if tag == "-" || strings.HasPrefix(tag, "-,") {
			continue
		}
		if !sh.noGate && !vfVersionOK(tag, sh.minor) {
			continue
		}
		fp := path + "." + f.Name
		if hasObject && f.Name == "ObjectType" {
			// discriminator of the accompanying object: kept concrete
			v.Field(i).SetUint(uint64(vfObjectTypes[sh.objIdx]))
			continue
		}
		vfPopulate(v.Field(i), sh, fp, strings.Contains(tag, "omitempty"))
	}
	if t.Name() == "ImportRequestPayload" {
		// an import request names the type of its object in an "Object Type" attribute
		v.FieldByName("Attribute").Set(reflect.ValueOf([]Attribute{{AttributeName: AttributeNameObjectType, AttributeValue: vfObjectTypes[sh.objIdx]}}))
	}
}

func vfAttribute(v reflect.Value, sh *vfShape, path string) {
	att := v.Addr().Interface().(*Attribute)
	name := AllAttributeNames[sh.attrIdx%len(AllAttributeNames)]
	att.AttributeName = name
	if !sh.minimal {
		idx := verifNondetInt32(path + ".AttributeIndex")
		att.AttributeIndex = &idx
	}
	val := reflect.New(attrTypes[name])
	vfPopulate(val.Elem(), sh, path+".AttributeValue", false)
	att.AttributeValue = val.Elem().Interface()
}

func vfKeyMaterial(km *KeyMaterial, format KeyFormatType, sh *vfShape, path string) {
	fill := func(p reflect.Value) {
		vfPopulate(p.Elem(), sh, path, false)
	}
	switch format {
	case KeyFormatTypeTransparentSymmetricKey:
		km.TransparentSymmetricKey = new(TransparentSymmetricKey)
		fill(reflect.ValueOf(km.TransparentSymmetricKey))
	case KeyFormatTypeTransparentRSAPrivateKey:
		km.TransparentRSAPrivateKey = new(TransparentRSAPrivateKey)
		fill(reflect.ValueOf(km.TransparentRSAPrivateKey))
	case KeyFormatTypeTransparentRSAPublicKey:
		km.TransparentRSAPublicKey = new(TransparentRSAPublicKey)
		fill(reflect.ValueOf(km.TransparentRSAPublicKey))
	case KeyFormatTypeTransparentECDSAPrivateKey:
		km.TransparentECDSAPrivateKey = new(TransparentECDSAPrivateKey)
		fill(reflect.ValueOf(km.TransparentECDSAPrivateKey))
	case KeyFormatTypeTransparentECDSAPublicKey:
		km.TransparentECDSAPublicKey = new(TransparentECDSAPublicKey)
		fill(reflect.ValueOf(km.TransparentECDSAPublicKey))
	case KeyFormatTypeTransparentECPrivateKey:
		km.TransparentECPrivateKey = new(TransparentECPrivateKey)
		fill(reflect.ValueOf(km.TransparentECPrivateKey))
	case KeyFormatTypeTransparentECPublicKey:
		km.TransparentECPublicKey = new(TransparentECPublicKey)
		fill(reflect.ValueOf(km.TransparentECPublicKey))
	default:
		b := verifNondetBytes(path+".Bytes", sh.bytesLen)
		km.Bytes = &b
	}
}

func vfKeyBlock(v reflect.Value, sh *vfShape, path string) {
	kb := v.Addr().Interface().(*KeyBlock)
	format := vfKeyFormats[sh.fmtIdx%len(vfKeyFormats)]
	kb.KeyFormatType = format
	vfPopulate(reflect.ValueOf(&kb.KeyCompressionType).Elem(), sh, path+".KeyCompressionType", true)
	vfPopulate(reflect.ValueOf(&kb.CryptographicAlgorithm).Elem(), sh, path+".CryptographicAlgorithm", true)
	vfPopulate(reflect.ValueOf(&kb.CryptographicLength).Elem(), sh, path+".CryptographicLength", true)
	if sh.minimal {
		return // metadata-only key block
	}
	kb.KeyValue = new(KeyValue)
	if sh.wrapped {
		w := verifNondetBytes(path+".Wrapped", sh.bytesLen)
		kb.KeyValue.Wrapped = &w
		kb.KeyWrappingData = new(KeyWrappingData)
		vfPopulate(reflect.ValueOf(kb.KeyWrappingData).Elem(), sh, path+".KeyWrappingData", false)
		return
	}
	kb.KeyValue.Plain = new(PlainKeyValue)
	vfKeyMaterial(&kb.KeyValue.Plain.KeyMaterial, format, sh, path+".KeyMaterial")
	vfPopulate(reflect.ValueOf(&kb.KeyValue.Plain.Attribute).Elem(), sh, path+".Attribute", false)
}

func vfCredential(v reflect.Value, sh *vfShape, path string) {
	c := v.Addr().Interface().(*Credential)
	ct := vfCredTypes[sh.credIdx%len(vfCredTypes)]
	c.CredentialType = ct
	switch ct {
	case CredentialTypeUsernameAndPassword:
		c.CredentialValue.UserPassword = new(CredentialValueUserPassword)
		vfPopulate(reflect.ValueOf(c.CredentialValue.UserPassword).Elem(), sh, path+".UserPassword", false)
	case CredentialTypeDevice:
		c.CredentialValue.Device = new(CredentialValueDevice)
		vfPopulate(reflect.ValueOf(c.CredentialValue.Device).Elem(), sh, path+".Device", false)
	case CredentialTypeAttestation:
		c.CredentialValue.Attestation = new(CredentialValueAttestation)
		vfPopulate(reflect.ValueOf(c.CredentialValue.Attestation).Elem(), sh, path+".Attestation", false)
	}
}

// ---------------------------------------------------------------------------
// content equality (nil slice == empty slice, time by instant, big.Int by value)

func vfEqual(a, b reflect.Value) bool {
	if a.Type() != b.Type() {
		return false
	}
	switch a.Type() {
	case vfTimeT:
		return a.Interface().(time.Time).Unix() == b.Interface().(time.Time).Unix()
	case vfBigT:
		x, y := a.Interface().(big.Int), b.Interface().(big.Int)
		return x.Cmp(&y) == 0
	}
	switch a.Kind() {
	case reflect.Bool:
		return a.Bool() == b.Bool()
	case reflect.Int, reflect.Int8, reflect.Int16, reflect.Int32, reflect.Int64:
		return a.Int() == b.Int()
	case reflect.Uint, reflect.Uint8, reflect.Uint16, reflect.Uint32, reflect.Uint64:
		return a.Uint() == b.Uint()
	case reflect.String:
		return a.String() == b.String()
	case reflect.Slice:
		if a.Len() != b.Len() {
			return false
		}
		if a.Type().Elem().Kind() == reflect.Uint8 {
			return verifBytesEq(a.Bytes(), b.Bytes())
		}
		res := true
		for i := 0; i < a.Len(); i++ {
			res = verifAnd(res, vfEqual(a.Index(i), b.Index(i)))
		}
		return res
	case reflect.Pointer:
		if a.IsNil() || b.IsNil() {
			return a.IsNil() == b.IsNil()
		}
		return vfEqual(a.Elem(), b.Elem())
	case reflect.Interface:
		if a.IsNil() || b.IsNil() {
			return a.IsNil() == b.IsNil()
		}
		return vfEqual(a.Elem(), b.Elem())
	case reflect.Struct:
		res := true
		for i := 0; i < a.NumField(); i++ {
			ft := a.Type().Field(i).Type
			if ft == vfValueT || ft == reflect.PointerTo(vfValueT) {
				// a generic value used as a tagged field is written with the field's
				// tag: its own Tag member carries no information on the wire
				x, y := a.Field(i), b.Field(i)
				if ft != vfValueT {
					if x.IsNil() || y.IsNil() {
						res = verifAnd(res, x.IsNil() == y.IsNil())
						continue
					}
					x, y = x.Elem(), y.Elem()
				}
				res = verifAnd(res, vfEqual(x.Field(1), y.Field(1)))
				continue
			}
			res = verifAnd(res, vfEqual(a.Field(i), b.Field(i)))
		}
		return res
	}
	return false
}

func vfShapeOf(shapeIdx, minor int) *vfShape {
	sh := &vfShape{minor: minor, strLen: 3, bytesLen: 9, bigLen: 9, sliceLen: 1}
	// shapeIdx: bit0 minimal, bit1 zero-omitempty, bit2 wrapped, bit3 negative big integers, bit4 two-element slices, bit5 8-byte big integers
	sh.minimal = shapeIdx&1 != 0
	sh.zero = shapeIdx&2 != 0
	sh.wrapped = shapeIdx&4 != 0
	sh.bigNeg = shapeIdx&8 != 0
	if shapeIdx&16 != 0 {
		sh.sliceLen = 2
	}
	if shapeIdx&32 != 0 {
		// magnitudes that fill a whole 8-byte block (sign extension needs a block of its own)
		sh.bigLen = 8
	}
	return sh
}
