package kmip

// C01 — binary TTLV round trip preserves every KMIP message.

import (
	"reflect"

	"github.com/ovh/kmip-go/ttlv"
)

func c01RoundTripRequest(msg *RequestMessage) {
	b := ttlv.MarshalTTLV(msg) // a panic here is a violation
	verifObserveBytes("encoded", b)
	b0 := append([]byte(nil), b...)
	var m2 RequestMessage
	err := ttlv.UnmarshalTTLV(b, &m2)
	verifAssert("decodes", err == nil)
	if err != nil {
		return
	}
	verifAssert("equal-content", vfEqual(reflect.ValueOf(msg).Elem(), reflect.ValueOf(&m2).Elem()))
	b2 := ttlv.MarshalTTLV(&m2)
	verifAssert("reencode-identical", verifBytesEq(b0, b2))
}

func c01RoundTripResponse(msg *ResponseMessage) {
	b := ttlv.MarshalTTLV(msg)
	verifObserveBytes("encoded", b)
	b0 := append([]byte(nil), b...)
	var m2 ResponseMessage
	err := ttlv.UnmarshalTTLV(b, &m2)
	verifAssert("decodes", err == nil)
	if err != nil {
		return
	}
	verifAssert("equal-content", vfEqual(reflect.ValueOf(msg).Elem(), reflect.ValueOf(&m2).Elem()))
	b2 := ttlv.MarshalTTLV(&m2)
	verifAssert("reencode-identical", verifBytesEq(b0, b2))
}

// VerifC01_Request: operation number opIdx of the registry, shape bits, protocol
// minor version, object/format/attribute selectors.
func VerifC01_Request(opIdx, shapeIdx, minor, objIdx, fmtIdx, attrIdx int) {
	ops := vfOperations()
	if opIdx >= len(ops) {
		return
	}
	sh := vfShapeOf(shapeIdx, minor)
	sh.objIdx, sh.fmtIdx, sh.attrIdx, sh.credIdx = objIdx, fmtIdx, attrIdx, attrIdx
	op := ops[opIdx]
	pl := newRequestPayload(op)
	vfPopulate(reflect.ValueOf(pl).Elem(), sh, "pl", false)
	var msg RequestMessage
	vfPopulate(reflect.ValueOf(&msg.Header).Elem(), sh, "hdr", false)
	msg.Header.BatchCount = 1
	item := RequestBatchItem{Operation: op, RequestPayload: pl}
	if !sh.minimal {
		item.UniqueBatchItemID = verifNondetBytes("batchid", 8)
		item.MessageExtension = &MessageExtension{VendorIdentification: verifNondetString("vendor", 3), CriticalityIndicator: verifNondetBool("critical"), VendorExtension: vfGeneric("ext")}
	}
	msg.BatchItem = []RequestBatchItem{item}
	c01RoundTripRequest(&msg)
}

func VerifC01_Response(opIdx, shapeIdx, minor, objIdx, fmtIdx, attrIdx int) {
	ops := vfOperations()
	if opIdx >= len(ops) {
		return
	}
	sh := vfShapeOf(shapeIdx, minor)
	sh.objIdx, sh.fmtIdx, sh.attrIdx, sh.credIdx = objIdx, fmtIdx, attrIdx, attrIdx
	op := ops[opIdx]
	pl := newResponsePayload(op)
	vfPopulate(reflect.ValueOf(pl).Elem(), sh, "pl", false)
	var msg ResponseMessage
	vfPopulate(reflect.ValueOf(&msg.Header).Elem(), sh, "hdr", false)
	msg.Header.BatchCount = 1
	item := ResponseBatchItem{Operation: op, ResponsePayload: pl}
	// status fixed to success here: reason/message variations are VerifC01_Failure
	if !sh.minimal {
		item.UniqueBatchItemID = verifNondetBytes("batchid", 8)
		item.MessageExtension = &MessageExtension{VendorIdentification: verifNondetString("vendor", 3), CriticalityIndicator: verifNondetBool("critical"), VendorExtension: vfGeneric("ext")}
	}
	msg.BatchItem = []ResponseBatchItem{item}
	c01RoundTripResponse(&msg)
}

// VerifC01_Failure: response items without payload: every status / reason /
// message / asynchronous correlation value combination.
func VerifC01_Failure(shapeIdx, minor int) {
	sh := vfShapeOf(shapeIdx, minor)
	var msg ResponseMessage
	vfPopulate(reflect.ValueOf(&msg.Header).Elem(), sh, "hdr", false)
	msg.Header.BatchCount = 1
	item := ResponseBatchItem{Operation: Operation(verifNondetUint32("op")), ResultStatus: ResultStatus(verifNondetUint32("status")), ResultReason: ResultReason(verifNondetUint32("reason"))}
	if !sh.minimal {
		item.ResultMessage = verifNondetString("msg", 3)
		item.AsynchronousCorrelationValue = verifNondetBytes("async", 8)
		item.UniqueBatchItemID = verifNondetBytes("batchid", 8)
		// a message extension is allowed on an item without payload too
		item.MessageExtension = &MessageExtension{VendorIdentification: verifNondetString("vendor", 3), CriticalityIndicator: verifNondetBool("critical"), VendorExtension: vfGeneric("ext")}
	}
	msg.BatchItem = []ResponseBatchItem{item}
	c01RoundTripResponse(&msg)
}
