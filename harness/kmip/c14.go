package kmip

// C14 — key material survives registration, transport and extraction
// (accessor totality part: accessors applied to any decodable object that lacks
// the needed material return an error instead of panicking).

import (
	"reflect"
)

// VerifBuildObject builds object type number objIdx for the totality harnesses.
// variant 0: metadata-only key block (no key value); 1: plain key value with the
// material slot of format fmtIdx; 2: wrapped key value; 3: plain key value whose
// key material is entirely empty; 4: like 1 but every optional big integer nil.
// The key format type field is then overwritten by an arbitrary 32-bit value.
func VerifBuildObject(objIdx, variant, fmtIdx int) Object {
	sh := vfShapeOf(0, 4)
	sh.objIdx, sh.fmtIdx = objIdx, fmtIdx
	sh.bigLen, sh.bytesLen = 2, 3
	switch variant {
	case 0:
		sh.minimal = true
	case 2:
		sh.wrapped = true
	}
	obj, _ := NewObjectForType(vfObjectTypes[objIdx%len(vfObjectTypes)])
	vfPopulate(reflect.ValueOf(obj).Elem(), sh, "obj", false)
	kbv := reflect.ValueOf(obj).Elem().FieldByName("KeyBlock")
	if kbv.IsValid() {
		kb := kbv.Addr().Interface().(*KeyBlock)
		if variant == 3 && kb.KeyValue != nil && kb.KeyValue.Plain != nil {
			kb.KeyValue.Plain.KeyMaterial = KeyMaterial{}
		}
		if variant == 4 && kb.KeyValue != nil && kb.KeyValue.Plain != nil {
			if m := kb.KeyValue.Plain.KeyMaterial.TransparentRSAPrivateKey; m != nil {
				m.PrivateExponent, m.PublicExponent, m.P, m.Q, m.PrimeExponentP, m.PrimeExponentQ, m.CRTCoefficient = nil, nil, nil, nil, nil, nil, nil
			}
		}
		kb.KeyFormatType = KeyFormatType(verifNondetUint32("format"))
		kb.KeyCompressionType = KeyCompressionType(verifNondetUint32("compression"))
	}
	return obj
}

func VerifC14_Total(objIdx, variant, fmtIdx int) {
	obj := VerifBuildObject(objIdx, variant, fmtIdx)
	// a panic escaping any accessor is a violation; errors are fine
	switch o := obj.(type) {
	case *SecretData:
		_, _ = o.Data()
		_, _ = o.KeyBlock.GetMaterial()
		_, _ = o.KeyBlock.GetBytes()
		_ = o.KeyBlock.GetAttributes()
	case *Certificate:
		_, _ = o.X509Certificate()
		_, _ = o.PemCertificate()
	case *SymmetricKey:
		_, _ = o.KeyMaterial()
		_, _ = o.KeyBlock.GetMaterial()
		_, _ = o.KeyBlock.GetBytes()
		_ = o.KeyBlock.GetAttributes()
	case *PublicKey:
		_, _ = o.RSA()
		_, _ = o.ECDSA()
		_, _ = o.CryptoPublicKey()
		_, _ = o.PkixPem()
		_, _ = o.KeyBlock.GetBytes()
		_ = o.KeyBlock.GetAttributes()
	case *PrivateKey:
		_, _ = o.RSA()
		_, _ = o.ECDSA()
		_, _ = o.CryptoPrivateKey()
		_, _ = o.Pkcs8Pem()
		_, _ = o.KeyBlock.GetBytes()
		_ = o.KeyBlock.GetAttributes()
	case *SplitKey:
		_, _ = o.KeyBlock.GetMaterial()
		_, _ = o.KeyBlock.GetBytes()
		_ = o.KeyBlock.GetAttributes()
	case *PGPKey:
		_, _ = o.KeyBlock.GetMaterial()
		_, _ = o.KeyBlock.GetBytes()
		_ = o.KeyBlock.GetAttributes()
	}
	verifReach("all accessors returned")
}
