package kmip

// C04, converse direction: decoding a specification-conformant XML message
// produced elsewhere and encoding it again reproduces every element and value
// in the same order, adding and dropping nothing. The messages are the OASIS
// conformance vectors shipped in kmiptest/testdata, read from the repository
// under analysis at run time; "variations of them": the content of the data
// leaves (byte strings, big integers, date-times, intervals, long integers,
// booleans, plain integers) is replaced by symbolic values of the same type, so
// one job covers every message with the vector's structure and any such content.
// The real encoding/xml tokeniser runs on the (partly symbolic) text.

import (
	"bytes"
	"encoding/hex"
	"encoding/xml"
	"reflect"
	"strconv"
	"strings"
	"time"

	"github.com/ovh/kmip-go/ttlv"
)

type c04Tok struct {
	start          bool
	name           string
	tag, typ, val  string
	hasTyp, hasVal bool
}

// c04Tokens: the element structure of an XML text (comments, character data and
// processing instructions dropped).
func c04Tokens(b []byte) ([]c04Tok, bool) {
	d := xml.NewDecoder(bytes.NewReader(b))
	var out []c04Tok
	for {
		t, err := d.Token()
		if err != nil {
			return out, err.Error() == "EOF"
		}
		switch e := t.(type) {
		case xml.StartElement:
			k := c04Tok{start: true, name: e.Name.Local}
			for _, a := range e.Attr {
				switch a.Name.Local {
				case "type":
					k.typ, k.hasTyp = a.Value, true
				case "value":
					k.val, k.hasVal = a.Value, true
				case "tag":
					k.tag = a.Value
				}
			}
			out = append(out, k)
		case xml.EndElement:
			out = append(out, c04Tok{name: e.Name.Local})
		}
	}
}

var c04Versions = []string{"v1.0", "v1.1", "v1.2", "v1.3", "v1.4"}

func c04VectorFiles(version string) []string {
	return strings.Split(verifListRepoDir("kmiptest/testdata/"+version), "\n")
}

// c04Messages cuts the top-level RequestMessage / ResponseMessage elements out
// of a vector file.
func c04Messages(f []byte) [][]byte {
	var out [][]byte
	for pos := 0; pos < len(f); {
		i := bytes.Index(f[pos:], []byte("<Re"))
		if i < 0 {
			break
		}
		i += pos
		var name string
		switch {
		case bytes.HasPrefix(f[i:], []byte("<RequestMessage>")):
			name = "RequestMessage"
		case bytes.HasPrefix(f[i:], []byte("<ResponseMessage>")):
			name = "ResponseMessage"
		default:
			pos = i + 3
			continue
		}
		end := bytes.Index(f[i:], []byte("</"+name+">"))
		if end < 0 {
			break
		}
		end += i + len(name) + 3
		out = append(out, f[i:end])
		pos = end
	}
	return out
}

// c04Leaf describes one leaf element of a message text: where its value
// attribute lies.
type c04Leaf struct {
	name, typ  string
	from, to   int // value text = msg[from:to]
	underAttr  bool
}

// c04Leaves scans the (concrete) message text for start tags with type and
// value attributes written as name="...".
func c04Leaves(msg []byte) []c04Leaf {
	var out []c04Leaf
	for i := 0; i < len(msg); i++ {
		if msg[i] != '<' || i+1 >= len(msg) || msg[i+1] == '/' || msg[i+1] == '!' || msg[i+1] == '?' {
			continue
		}
		j := i + 1
		for j < len(msg) && msg[j] != '>' {
			j++
		}
		tagText := msg[i+1 : j]
		sp := bytes.IndexAny(tagText, " \t\r\n/")
		if sp < 0 {
			i = j
			continue
		}
		l := c04Leaf{name: string(tagText[:sp])}
		if k := bytes.Index(tagText, []byte(`type="`)); k >= 0 {
			e := bytes.IndexByte(tagText[k+6:], '"')
			l.typ = string(tagText[k+6 : k+6+e])
		}
		if k := bytes.Index(tagText, []byte(`value="`)); k >= 0 {
			e := bytes.IndexByte(tagText[k+7:], '"')
			l.from, l.to = i+1+k+7, i+1+k+7+e
			out = append(out, l)
		}
		i = j
	}
	return out
}

// c04Structural: leaves whose value steers the structure of the message (kept
// as in the vector).
func c04Structural(name string) bool {
	switch name {
	case "ProtocolVersionMajor", "ProtocolVersionMinor", "BatchCount", "AttributeIndex":
		return true
	}
	return false
}

func c04IsDecimal(s []byte) bool {
	if len(s) == 0 || len(s) > 9 {
		return false
	}
	for _, c := range s {
		if c < '0' || c > '9' {
			return false
		}
	}
	return true
}

var c04Pow10 = []uint64{1, 10, 100, 1000, 10000, 100000, 1000000, 10000000, 100000000, 1000000000}

// c04SameDigits: an arbitrary number with as many decimal digits as the vector's
// value (the lexical form keeps its length; for one digit this includes 0).
func c04SameDigits(pfx string, digits int) uint64 {
	v := uint64(verifNondetUint32(pfx))
	lo := c04Pow10[digits-1]
	if digits == 1 {
		lo = 0
	}
	verifAssume(v >= lo)
	verifAssume(v <= c04Pow10[digits]-1)
	return v
}

// c04Vary builds the message text with the data leaves replaced: vary=0 keeps
// the vector (only the $VARIABLES are given a value of their type); vary=1
// replaces every date-time, byte string and big integer by a symbolic value
// (first 8 bytes of longer byte strings; big integers of up to 16 bytes, their last 8 bytes); vary=2 replaces every plain decimal
// integer, long integer, interval and boolean by a symbolic value of the same
// number of digits. zero reports whether some varied leaf has the value zero /
// false (see the known finding about zero-valued optional elements).
func c04Vary(msg []byte, vary int) (out []byte, zero bool) {
	leaves := c04Leaves(msg)
	last := 0
	for n, l := range leaves {
		val := msg[l.from:l.to]
		repl := val
		isVar := len(val) > 0 && val[0] == '$'
		pfx := "leaf" + strconv.Itoa(n)
		structural := c04Structural(l.name)
		switch l.typ {
		case "DateTime":
			if vary == 1 || isVar {
				sec := int64(1577836800)
				if vary == 1 {
					sec = verifNondetInt64(pfx)
					verifAssume(sec >= -62135596800 && sec <= 253402300799)
				}
				repl = []byte(time.Unix(sec, 0).UTC().Format(time.RFC3339))
			}
		case "ByteString", "BigInteger":
			if isVar {
				val = []byte("DEADBEEFCAFE0001")
				repl = val
			}
			if vary == 1 && len(val)%2 == 0 && len(val) > 0 && !(l.typ == "BigInteger" && len(val) > 32) {
				raw, err := hex.DecodeString(string(val))
				if err == nil {
					k := len(raw)
					if k > 8 {
						k = 8
					}
					if l.typ == "BigInteger" {
						// the low-order bytes: the leading ones are sign padding in the
						// vectors, varying them only varies the length normalisation
						copy(raw[len(raw)-k:], verifNondetBytes(pfx, k))
					} else {
						copy(raw, verifNondetBytes(pfx, k))
					}
					repl = []byte(hex.EncodeToString(raw))
				}
			}
		case "Integer", "LongInteger", "Interval":
			if isVar {
				repl = []byte("1")
			} else if vary == 2 && !structural && c04IsDecimal(val) {
				v := c04SameDigits(pfx, len(val))
				zero = verifOr(zero, v == 0)
				repl = []byte(strconv.FormatUint(v, 10))
			}
		case "Boolean":
			if isVar {
				repl = []byte("true")
			} else if vary == 2 {
				if verifNondetBool(pfx) {
					repl = []byte("true")
				} else {
					repl = []byte("false")
					zero = true
				}
			}
		default:
			// Enumeration, TextString: kept (a $VARIABLE is a valid text)
			if isVar && l.typ == "Enumeration" {
				repl = []byte("1")
			}
		}
		out = append(out, msg[last:l.from]...)
		out = append(out, repl...)
		last = l.to
	}
	out = append(out, msg[last:]...)
	return out, zero
}

func c04NormBig(b []byte) []byte {
	for len(b) > 1 && (b[0] == 0 && b[1] < 0x80 || b[0] == 0xFF && b[1] >= 0x80) {
		b = b[1:]
	}
	return b
}

func c04Words(s string) []string {
	w := strings.Fields(s)
	for a := 0; a < len(w); a++ {
		for b := a + 1; b < len(w); b++ {
			if w[b] < w[a] {
				w[a], w[b] = w[b], w[a]
			}
		}
	}
	return w
}

// c04SameValue: the two lexical forms denote the same value of type typ.
func c04SameValue(typ, a, b string) bool {
	if a == b {
		return true
	}
	switch typ {
	case "ByteString":
		x, e1 := hex.DecodeString(a)
		y, e2 := hex.DecodeString(b)
		return e1 == nil && e2 == nil && bytes.Equal(x, y)
	case "BigInteger":
		x, e1 := hex.DecodeString(a)
		y, e2 := hex.DecodeString(b)
		return e1 == nil && e2 == nil && bytes.Equal(c04NormBig(x), c04NormBig(y))
	case "DateTime":
		x, e1 := time.Parse(time.RFC3339, a)
		y, e2 := time.Parse(time.RFC3339, b)
		return e1 == nil && e2 == nil && x.Unix() == y.Unix()
	case "Integer":
		// numbers, or mask names in any order
		x, e1 := strconv.ParseInt(a, 10, 32)
		y, e2 := strconv.ParseInt(b, 10, 32)
		if e1 == nil && e2 == nil {
			return x == y
		}
		wa, wb := c04Words(a), c04Words(b)
		if len(wa) != len(wb) {
			return false
		}
		for i := range wa {
			if wa[i] != wb[i] {
				return false
			}
		}
		return true
	case "LongInteger":
		x, e1 := strconv.ParseInt(a, 10, 64)
		y, e2 := strconv.ParseInt(b, 10, 64)
		return e1 == nil && e2 == nil && x == y
	case "Interval":
		x, e1 := strconv.ParseUint(a, 10, 32)
		y, e2 := strconv.ParseUint(b, 10, 32)
		return e1 == nil && e2 == nil && x == y
	case "Boolean":
		x, e1 := strconv.ParseBool(a)
		y, e2 := strconv.ParseBool(b)
		return e1 == nil && e2 == nil && x == y
	}
	return false
}

// VerifC04_Vector: message number msgIdx (-1: every message, one after the
// other) of vector file fileIdx of version ver.
func VerifC04_Vector(ver, fileIdx, msgIdx, vary int) {
	files := c04VectorFiles(c04Versions[ver])
	if fileIdx >= len(files) {
		verifReach("no such file")
		return
	}
	f := verifReadRepoFile("kmiptest/testdata/" + c04Versions[ver] + "/" + files[fileIdx])
	msgs := c04Messages(f)
	if msgIdx >= len(msgs) {
		verifReach("no such message")
		return
	}
	if msgIdx >= 0 {
		c04Message(msgs[msgIdx], vary)
		return
	}
	for _, m := range msgs {
		c04Message(m, vary)
	}
}

func c04Message(msg []byte, vary int) {
	in, zero := c04Vary(msg, vary)
	// Known finding: optional scalar fields are declared `omitempty` on value
	// types, so an element that is present with the value 0 / false cannot be
	// told from an absent one and is dropped when the message is written again.
	verifKnown("C04-zero-valued-optional-dropped", zero)
	var out []byte
	var err error
	if bytes.HasPrefix(in, []byte("<RequestMessage>")) {
		var m RequestMessage
		if err = ttlv.UnmarshalXML(in, &m); err == nil {
			out = ttlv.MarshalXML(&m)
		}
	} else {
		var m ResponseMessage
		if err = ttlv.UnmarshalXML(in, &m); err == nil {
			out = ttlv.MarshalXML(&m)
		}
	}
	if err != nil {
		// not a message of a supported operation (or not decodable): outside
		// the clause
		verifReach("rejected")
		return
	}
	verifReach("decoded")
	a, okA := c04Tokens(in)
	b, okB := c04Tokens(out)
	verifAssert("re-encoding is well-formed", okA && okB)
	n := len(a)
	if len(b) < n {
		n = len(b)
	}
	for i := 0; i < n; i++ {
		same := a[i].start == b[i].start && a[i].name == b[i].name
		if !same {
			verifObserveStr("original element", a[i].name)
			verifObserveStr("re-encoded element", b[i].name)
		}
		verifAssert("same elements in the same order", same)
		if !same {
			return
		}
		if !a[i].start {
			continue
		}
		verifAssert("same type", a[i].typ == b[i].typ && a[i].hasVal == b[i].hasVal)
		if a[i].hasVal && b[i].hasVal {
			verifAssert("same value", c04SameValue(a[i].typ, a[i].val, b[i].val))
		}
	}
	verifAssert("same number of elements", len(a) == len(b))
}

// VerifC04_Document: forward direction at document level. A typed message of
// operation opIdx (all-present shape; numbers, byte strings, big integers,
// dates symbolic; text strings symbolic lower-case letters; enumerations and
// masks concrete) is written as XML (enc 1) or JSON (enc 2), read back through
// the real tokeniser and the real typed decoder, and its binary encoding is
// compared with the binary encoding of the original.
func VerifC04_Document(dir, opIdx, enc, minor int) {
	ops := vfOperations()
	if opIdx >= len(ops) {
		verifReach("no such operation")
		return
	}
	op := ops[opIdx]
	sh := vfShapeOf(0, minor)
	sh.text = true
	sh.objIdx, sh.fmtIdx = 1, 0
	var msg any
	if dir == 0 {
		pl := newRequestPayload(op)
		vfPopulate(reflect.ValueOf(pl).Elem(), sh, "pl", false)
		m := &RequestMessage{}
		vfPopulate(reflect.ValueOf(&m.Header).Elem(), sh, "hdr", false)
		m.Header.BatchCount = 1
		m.BatchItem = []RequestBatchItem{{Operation: op, RequestPayload: pl}}
		msg = m
	} else {
		pl := newResponsePayload(op)
		vfPopulate(reflect.ValueOf(pl).Elem(), sh, "pl", false)
		m := &ResponseMessage{}
		vfPopulate(reflect.ValueOf(&m.Header).Elem(), sh, "hdr", false)
		m.Header.BatchCount = 1
		m.BatchItem = []ResponseBatchItem{{Operation: op, ResultStatus: ResultStatusSuccess, ResponsePayload: pl}}
		msg = m
	}
	bin := append([]byte(nil), ttlv.MarshalTTLV(msg)...)
	var doc []byte
	if enc == 1 {
		doc = ttlv.MarshalXML(msg)
	} else {
		doc = ttlv.MarshalJSON(msg)
	}
	var back any
	var err error
	if dir == 0 {
		var m RequestMessage
		if enc == 1 {
			err = ttlv.UnmarshalXML(doc, &m)
		} else {
			err = ttlv.UnmarshalJSON(doc, &m)
		}
		back = &m
	} else {
		var m ResponseMessage
		if enc == 1 {
			err = ttlv.UnmarshalXML(doc, &m)
		} else {
			err = ttlv.UnmarshalJSON(doc, &m)
		}
		back = &m
	}
	verifAssert("the document is well-formed for the tokeniser and decodes", err == nil)
	if err != nil {
		return
	}
	verifReach("decoded")
	verifAssert("binary encoding of the decoded document is byte-identical to the original's", verifBytesEq(bin, ttlv.MarshalTTLV(back)))
	// C18 at document level, typed target: writing the decoded message again in
	// the same encoding gives the same text
	doc1 := append([]byte(nil), doc...)
	var doc2 []byte
	if enc == 1 {
		doc2 = ttlv.MarshalXML(back)
	} else {
		doc2 = ttlv.MarshalJSON(back)
	}
	verifAssert("re-encoding the decoded document gives the same text", verifBytesEq(doc1, doc2))
}
