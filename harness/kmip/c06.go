package kmip

// C06 — payloads, objects and attributes decode to their registered types.

import (
	"reflect"
	"time"

	"github.com/ovh/kmip-go/ttlv"
)

// pinned operation -> payload type names (library naming, pinned here)
var c06Ops = map[Operation][2]string{
	OperationCreate:             {"CreateRequestPayload", "CreateResponsePayload"},
	OperationCreateKeyPair:      {"CreateKeyPairRequestPayload", "CreateKeyPairResponsePayload"},
	OperationRegister:           {"RegisterRequestPayload", "RegisterResponsePayload"},
	OperationReKey:              {"RekeyRequestPayload", "RekeyResponsePayload"},
	OperationLocate:             {"LocateRequestPayload", "LocateResponsePayload"},
	OperationGet:                {"GetRequestPayload", "GetResponsePayload"},
	OperationGetAttributes:      {"GetAttributesRequestPayload", "GetAttributesResponsePayload"},
	OperationGetAttributeList:   {"GetAttributeListRequestPayload", "GetAttributeListResponsePayload"},
	OperationAddAttribute:       {"AddAttributeRequestPayload", "AddAttributeResponsePayload"},
	OperationModifyAttribute:    {"ModifyAttributeRequestPayload", "ModifyAttributeResponsePayload"},
	OperationDeleteAttribute:    {"DeleteAttributeRequestPayload", "DeleteAttributeResponsePayload"},
	OperationObtainLease:        {"ObtainLeaseRequestPayload", "ObtainLeaseResponsePayload"},
	OperationGetUsageAllocation: {"GetUsageAllocationRequestPayload", "GetUsageAllocationResponsePayload"},
	OperationActivate:           {"ActivateRequestPayload", "ActivateResponsePayload"},
	OperationRevoke:             {"RevokeRequestPayload", "RevokeResponsePayload"},
	OperationDestroy:            {"DestroyRequestPayload", "DestroyResponsePayload"},
	OperationArchive:            {"ArchiveRequestPayload", "ArchiveResponsePayload"},
	OperationRecover:            {"RecoverRequestPayload", "RecoverResponsePayload"},
	OperationQuery:              {"QueryRequestPayload", "QueryResponsePayload"},
	OperationReKeyKeyPair:       {"RekeyKeyPairRequestPayload", "RekeyKeyPairResponsePayload"},
	OperationDiscoverVersions:   {"DiscoverVersionsRequestPayload", "DiscoverVersionsResponsePayload"},
	OperationEncrypt:            {"EncryptRequestPayload", "EncryptResponsePayload"},
	OperationDecrypt:            {"DecryptRequestPayload", "DecryptResponsePayload"},
	OperationSign:               {"SignRequestPayload", "SignResponsePayload"},
	OperationSignatureVerify:    {"SignatureVerifyRequestPayload", "SignatureVerifyResponsePayload"},
	OperationImport:             {"ImportRequestPayload", "ImportResponsePayload"},
	OperationExport:             {"ExportRequestPayload", "ExportResponsePayload"},
}

var c06Objects = map[ObjectType]string{
	ObjectTypeCertificate: "Certificate", ObjectTypeSymmetricKey: "SymmetricKey", ObjectTypePublicKey: "PublicKey", ObjectTypePrivateKey: "PrivateKey",
	ObjectTypeSplitKey: "SplitKey", ObjectTypeTemplate: "Template", ObjectTypeSecretData: "SecretData", ObjectTypeOpaqueObject: "OpaqueObject", ObjectTypePGPKey: "PGPKey",
}

// pinned attribute -> TTLV wire type of its value (KMIP 1.4 §3)
var c06AttrWire = map[AttributeName]byte{
	AttributeNameUniqueIdentifier: 7, AttributeNameName: 1, AttributeNameObjectType: 5, AttributeNameOperationPolicyName: 7, AttributeNameObjectGroup: 7,
	AttributeNameContactInformation: 7, AttributeNameInitialDate: 9, AttributeNameActivationDate: 9, AttributeNameProcessStartDate: 9, AttributeNameProtectStopDate: 9,
	AttributeNameDeactivationDate: 9, AttributeNameDestroyDate: 9, AttributeNameCompromiseOccurrenceDate: 9, AttributeNameCompromiseDate: 9, AttributeNameArchiveDate: 9,
	AttributeNameLastChangeDate: 9, AttributeNameCryptographicLength: 2, AttributeNameLeaseTime: 10, AttributeNameCryptographicAlgorithm: 5, AttributeNameCryptographicParameters: 1,
	AttributeNameCryptographicDomainParameters: 1, AttributeNameCertificateType: 5, AttributeNameDigest: 1, AttributeNameCryptographicUsageMask: 2, AttributeNameState: 5,
	AttributeNameRevocationReason: 1, AttributeNameLink: 1, AttributeNameCertificateIdentifier: 1, AttributeNameCertificateSubject: 1, AttributeNameCertificateIssuer: 1,
	AttributeNameUsageLimits: 1, AttributeNameApplicationSpecificInformation: 1, AttributeNameCertificateLength: 2, AttributeNameFresh: 6, AttributeNameX509CertificateIdentifier: 1,
	AttributeNameX509CertificateSubject: 1, AttributeNameX509CertificateIssuer: 1, AttributeNameDigitalSignatureAlgorithm: 5, AttributeNameAlternativeName: 1, AttributeNameKeyValuePresent: 6,
	AttributeNameKeyValueLocation: 1, AttributeNameOriginalCreationDate: 9, AttributeNameRandomNumberGenerator: 1, AttributeNamePKCS_12FriendlyName: 7, AttributeNameDescription: 7,
	AttributeNameComment: 7, AttributeNameSensitive: 6, AttributeNameAlwaysSensitive: 6, AttributeNameExtractable: 6, AttributeNameNeverExtractable: 6,
}

func c06TypeName(v any) string {
	t := reflect.TypeOf(v)
	for t != nil && t.Kind() == reflect.Pointer {
		t = t.Elem()
	}
	if t == nil {
		return ""
	}
	return t.Name()
}

// VerifC06_Registry: for an arbitrary 32-bit operation code the registry yields
// the pinned payload type for both directions, reporting the same operation.
func VerifC06_Registry() {
	op := Operation(verifNondetUint32("op"))
	rq, rs := newRequestPayload(op), newResponsePayload(op)
	verifAssert("payloads report the operation", rq.Operation() == op && rs.Operation() == op)
	want, known := c06Ops[op]
	if known {
		verifReach("registered")
		verifAssert("registered request type", c06TypeName(rq) == want[0])
		verifAssert("registered response type", c06TypeName(rs) == want[1])
	} else {
		verifReach("unregistered")
		verifAssert("unknown operations use the opaque payload", c06TypeName(rq) == "UnknownPayload" && c06TypeName(rs) == "UnknownPayload")
	}
}

// reference generator (KMIP 1.4 §9.1)
func c06Item(tag int, typ byte, val []byte) []byte {
	l := len(val)
	out := []byte{byte(tag >> 16), byte(tag >> 8), byte(tag), typ, byte(l >> 24), byte(l >> 16), byte(l >> 8), byte(l)}
	out = append(out, val...)
	for len(out)%8 != 0 {
		out = append(out, 0)
	}
	return out
}

func c06U32(v uint32) []byte { return []byte{byte(v >> 24), byte(v >> 16), byte(v >> 8), byte(v)} }

func c06Generic(pfx string) []byte {
	var b []byte
	b = append(b, c06Item(0x540001, 2, c06U32(verifNondetUint32(pfx+".a")))...)
	b = append(b, c06Item(0x540002, 7, verifNondetBytes(pfx+".b", 5))...)
	b = append(b, c06Item(0x540003, 1, c06Item(0x540004, 8, verifNondetBytes(pfx+".c", 3)))...)
	return b
}

// VerifC06_Unknown: a batch item of an operation unknown to the library is
// preserved as opaque TTLV and re-encodes byte-identically (dir 0 request,
// 1 response).
func VerifC06_Unknown(dir int) {
	op := verifNondetUint32("op")
	_, known := c06Ops[Operation(op)]
	verifAssume(!known && op != 0)
	var body []byte
	body = append(body, c06Item(TagOperation, 5, c06U32(op))...)
	if dir == 1 {
		body = append(body, c06Item(TagResultStatus, 5, c06U32(0))...)
		body = append(body, c06Item(TagResponsePayload, 1, c06Generic("pl"))...)
	} else {
		body = append(body, c06Item(TagRequestPayload, 1, c06Generic("pl"))...)
	}
	wire := c06Item(TagBatchItem, 1, body)
	in := append([]byte(nil), wire...)
	dec, derr := ttlv.NewTTLVDecoder(in)
	verifAssert("decoder accepts the framing", derr == nil)
	if derr != nil {
		return
	}
	enc := ttlv.NewTTLVEncoder()
	if dir == 0 {
		var it RequestBatchItem
		err := dec.TagAny(TagBatchItem, &it)
		verifAssert("unknown operation is accepted", err == nil)
		if err != nil {
			return
		}
		verifAssert("opaque payload reporting the operation", c06TypeName(it.RequestPayload) == "UnknownPayload" && it.RequestPayload.Operation() == Operation(op))
		enc.TagAny(TagBatchItem, &it)
		verifAssert("re-encodes byte-identically", verifBytesEq(enc.Bytes(), wire))
		return
	}
	var it ResponseBatchItem
	err := dec.TagAny(TagBatchItem, &it)
	verifAssert("unknown operation is accepted", err == nil)
	if err != nil {
		return
	}
	verifAssert("opaque payload reporting the operation", it.ResponsePayload != nil && c06TypeName(it.ResponsePayload) == "UnknownPayload" && it.ResponsePayload.Operation() == Operation(op))
	enc.TagAny(TagBatchItem, &it)
	verifAssert("re-encodes byte-identically", verifBytesEq(enc.Bytes(), wire))
}

// VerifC06_Object: arbitrary 32-bit object type.
func VerifC06_Object() {
	ot := ObjectType(verifNondetUint32("objtype"))
	obj, err := NewObjectForType(ot)
	want, known := c06Objects[ot]
	if known {
		verifReach("registered")
		verifAssert("registered object type", err == nil && obj != nil && c06TypeName(obj) == want && obj.ObjectType() == ot)
	} else {
		verifReach("unregistered")
		verifAssert("unknown object type is an error, not a value", err != nil && obj == nil)
	}
}

func c06Value(wire int, pfx string) []byte {
	switch wire {
	case 1:
		return c06Item(TagAttributeValue, 1, nil)
	case 2:
		return c06Item(TagAttributeValue, 2, c06U32(verifNondetUint32(pfx)))
	case 3:
		return c06Item(TagAttributeValue, 3, verifNondetBytes(pfx, 8))
	case 4:
		return c06Item(TagAttributeValue, 4, verifNondetBytes(pfx, 8))
	case 5:
		return c06Item(TagAttributeValue, 5, c06U32(verifNondetUint32(pfx)))
	case 6:
		return c06Item(TagAttributeValue, 6, []byte{0, 0, 0, 0, 0, 0, 0, verifNondetUint8(pfx) & 1})
	case 7:
		return c06Item(TagAttributeValue, 7, verifNondetBytes(pfx, 5))
	case 8:
		return c06Item(TagAttributeValue, 8, verifNondetBytes(pfx, 5))
	case 9:
		return c06Item(TagAttributeValue, 9, verifNondetBytes(pfx, 8))
	default:
		return c06Item(TagAttributeValue, 10, c06U32(verifNondetUint32(pfx)))
	}
}

func c06WireOf(v any) byte {
	switch x := v.(type) {
	case string:
		return 7
	case int32:
		return 2
	case bool:
		return 6
	case time.Time:
		return 9
	case time.Duration:
		return 10
	case []byte:
		return 8
	case int64:
		return 3
	case ttlv.Value:
		return 0
	default:
		_ = x
		t := reflect.TypeOf(v)
		switch t.Kind() {
		case reflect.Uint32:
			return 5
		case reflect.Int32:
			return 2
		case reflect.Struct:
			return 1
		}
	}
	return 0
}

// VerifC06_Attribute: standard attribute number idx carrying a value item of
// wire type wire (1..10): the value decodes to the attribute's specified type,
// or the decoder reports an error when the wire type differs.
func VerifC06_Attribute(idx, wire int) {
	name := AllAttributeNames[idx%len(AllAttributeNames)]
	pinned, ok := c06AttrWire[name]
	verifAssert("attribute is in the pinned table", ok)
	var body []byte
	body = append(body, c06Item(TagAttributeName, 7, []byte(name))...)
	body = append(body, c06Value(wire, "v")...)
	in := c06Item(TagAttribute, 1, body)
	var att Attribute
	err := ttlv.UnmarshalTTLV(in, &att)
	if int(pinned) != wire {
		verifReach("mismatch")
		verifAssert("wrong wire type is rejected", err != nil)
		return
	}
	if err != nil {
		// right wire type but empty structure: a required member may be missing
		verifReach("right-type-rejected")
		verifAssert("only structures may be rejected for missing members", wire == 1)
		return
	}
	verifReach("accepted")
	verifAssert("attribute name preserved", att.AttributeName == name)
	verifAssert("value has the specified type", att.AttributeValue != nil && c06WireOf(att.AttributeValue) == pinned)
}

// VerifC06_CustomAttribute: unknown / custom attribute names keep their value
// as opaque TTLV that re-encodes byte-identically. kind 0: x- prefix, 1: y-
// prefix, 2: arbitrary unregistered name of n bytes.
func VerifC06_CustomAttribute(kind, n, wire int) {
	raw := verifNondetBytes("name", n)
	var name []byte
	switch kind {
	case 0:
		name = append([]byte("x-"), raw...)
	case 1:
		name = append([]byte("y-"), raw...)
	default:
		name = raw
		_, std := attrTypes[AttributeName(string(raw))]
		verifAssume(!std)
	}
	var body []byte
	body = append(body, c06Item(TagAttributeName, 7, name)...)
	body = append(body, c06Value(wire, "v")...)
	wireBytes := c06Item(TagAttribute, 1, body)
	in := append([]byte(nil), wireBytes...)
	var att Attribute
	err := ttlv.UnmarshalTTLV(in, &att)
	verifAssert("custom attribute accepted", err == nil)
	if err != nil {
		return
	}
	verifAssert("name preserved", string(att.AttributeName) == string(name))
	_, isValue := att.AttributeValue.(ttlv.Value)
	verifAssert("value kept as generic TTLV", isValue)
	verifAssert("re-encodes byte-identically", verifBytesEq(ttlv.MarshalTTLV(&att), wireBytes))
}

// VerifC06_PayloadUnknownObject: the payload decoders that create a managed
// object from an accompanying object type (Get response, Register request,
// Export response, Import request) report an error for an unregistered object
// type instead of returning a payload without (or with a wrong) object.
// which: 0 Get response, 1 Register request, 2 Export response, 3 Import request.
func VerifC06_PayloadUnknownObject(which int) {
	ot := verifNondetUint32("objtype")
	_, known := c06Objects[ObjectType(ot)]
	verifAssume(!known)
	objBytes := c06Item(TagSymmetricKey, 1, c06Item(TagKeyBlock, 1, c06Item(TagKeyFormatType, 5, c06U32(uint32(KeyFormatTypeRaw)))))
	var body []byte
	var op Operation
	dir := 1
	switch which {
	case 0:
		op = OperationGet
		body = append(body, c06Item(TagObjectType, 5, c06U32(ot))...)
		body = append(body, c06Item(TagUniqueIdentifier, 7, []byte("id"))...)
		body = append(body, objBytes...)
	case 1:
		op, dir = OperationRegister, 0
		body = append(body, c06Item(TagObjectType, 5, c06U32(ot))...)
		body = append(body, c06Item(TagTemplateAttribute, 1, nil)...)
		body = append(body, objBytes...)
	case 2:
		op = OperationExport
		body = append(body, c06Item(TagObjectType, 5, c06U32(ot))...)
		body = append(body, c06Item(TagUniqueIdentifier, 7, []byte("id"))...)
		body = append(body, objBytes...)
	default:
		op, dir = OperationImport, 0
		body = append(body, c06Item(TagUniqueIdentifier, 7, []byte("id"))...)
		var attr []byte
		attr = append(attr, c06Item(TagAttributeName, 7, []byte("Object Type"))...)
		attr = append(attr, c06Item(TagAttributeValue, 5, c06U32(ot))...)
		body = append(body, c06Item(TagAttribute, 1, attr)...)
		body = append(body, objBytes...)
	}
	var pl OperationPayload
	tag := TagResponsePayload
	if dir == 0 {
		pl = newRequestPayload(op)
		tag = TagRequestPayload
	} else {
		pl = newResponsePayload(op)
	}
	verifAssert("payload type is registered", c06TypeName(pl) != "UnknownPayload")
	dec, derr := ttlv.NewTTLVDecoder(c06Item(tag, 1, body))
	verifAssert("framing accepted", derr == nil)
	if derr != nil {
		return
	}
	err := dec.TagAny(tag, pl)
	verifAssert("unknown object type yields an error, not a value", err != nil)
}
