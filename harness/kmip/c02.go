package kmip

// C02/C18 — typed targets (reflection-driven and hand-written decoders):
// header-symbolic families. Start from the valid encoding of a message (C01
// shape, symbolic values), replace the 8-byte header (tag, type, length: 64
// symbolic bits) of item number pos — or its value bytes — by arbitrary bytes and
// decode into the typed message: "every way a length, type or nesting field can
// disagree with the bytes that follow", one position at a time.

import (
	"reflect"

	"github.com/ovh/kmip-go/ttlv"
)

// c02Offsets lists the byte offsets of all item headers of a well-formed
// encoding, depth first.
func c02Offsets(b []byte, base int, out *[]int) {
	for len(b) >= 8 {
		l := int(b[4])<<24 | int(b[5])<<16 | int(b[6])<<8 | int(b[7])
		padded := (l + 7) / 8 * 8
		*out = append(*out, base)
		if b[3] == 1 {
			c02Offsets(b[8:8+l], base+8, out)
		}
		b = b[8+padded:]
		base += 8 + padded
	}
}

func c02Wire(opIdx, dir, minor int) ([]byte, bool) {
	ops := vfOperations()
	if opIdx >= len(ops) {
		return nil, false
	}
	msg, _ := c20Message(opIdx, dir, minor, "m.")
	return ttlv.MarshalTTLV(msg), true
}

// VerifC02_Typed: part 0 = the header of item pos is arbitrary; part 1 = the
// first 8 value bytes of item pos are arbitrary.
func VerifC02_Typed(opIdx, dir, pos, part int) {
	wire, ok := c02Wire(opIdx, dir, 4)
	if !ok {
		return
	}
	var offs []int
	c02Offsets(wire, 0, &offs)
	if pos >= len(offs) {
		verifReach("position beyond the message")
		return
	}
	off := offs[pos]
	if part == 1 {
		off += 8
	}
	if off+8 > len(wire) {
		return
	}
	in := append([]byte(nil), wire...)
	sym := verifNondetBytes("x", 8)
	if part == 0 {
		// the declared length is arbitrary among: every small length (0..40, covers
		// all fixed widths, paddings and short strings), and every large one
		// (>= 65536: beyond any enclosing extent); mid-range lengths only differ
		// by where the next item starts inside the message
		l := int(sym[4])<<24 | int(sym[5])<<16 | int(sym[6])<<8 | int(sym[7])
		verifAssume(l <= 40 || l >= 65536)
	}
	copy(in[off:off+8], sym)
	verifWatch(in)
	var err1, err2 error
	var v1, v2 reflect.Value
	if dir == 0 {
		var m1, m2 RequestMessage
		err1 = ttlv.UnmarshalTTLV(in, &m1) // a panic here is a violation
		err2 = ttlv.UnmarshalTTLV(in, &m2)
		v1, v2 = reflect.ValueOf(&m1).Elem(), reflect.ValueOf(&m2).Elem()
	} else {
		var m1, m2 ResponseMessage
		err1 = ttlv.UnmarshalTTLV(in, &m1)
		err2 = ttlv.UnmarshalTTLV(in, &m2)
		v1, v2 = reflect.ValueOf(&m1).Elem(), reflect.ValueOf(&m2).Elem()
	}
	verifReach("decoded")
	verifAssert("second decode: same outcome", (err1 == nil) == (err2 == nil))
	if err1 != nil || err2 != nil {
		return
	}
	verifReach("accepted")
	verifAssert("second decode: same value", vfEqual(v1, v2))
	// C18 for typed targets: accepted input re-encodes to a fixed point
	var e1 []byte
	if dir == 0 {
		e1 = ttlv.MarshalTTLV(v1.Addr().Interface())
	} else {
		e1 = ttlv.MarshalTTLV(v1.Addr().Interface())
	}
	e1c := append([]byte(nil), e1...)
	var err3 error
	var v3 reflect.Value
	if dir == 0 {
		var m3 RequestMessage
		err3 = ttlv.UnmarshalTTLV(e1, &m3)
		v3 = reflect.ValueOf(&m3).Elem()
	} else {
		var m3 ResponseMessage
		err3 = ttlv.UnmarshalTTLV(e1, &m3)
		v3 = reflect.ValueOf(&m3).Elem()
	}
	verifAssert("re-encoding decodes again", err3 == nil)
	if err3 != nil {
		return
	}
	e2 := ttlv.MarshalTTLV(v3.Addr().Interface())
	verifAssert("second re-encoding is byte-identical", verifBytesEq(e1c, e2))
}
