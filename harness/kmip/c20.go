package kmip

// C20 — codec results do not depend on concurrency or call history.

import (
	"reflect"

	"github.com/ovh/kmip-go/ttlv"
)

func c20Message(opIdx, dir, minor int, pfx string) (any, any) {
	ops := vfOperations()
	op := ops[opIdx%len(ops)]
	sh := vfShapeOf(0, minor)
	sh.objIdx, sh.fmtIdx = 1, 0
	if dir == 0 {
		pl := newRequestPayload(op)
		vfPopulate(reflect.ValueOf(pl).Elem(), sh, pfx+"pl", false)
		msg := &RequestMessage{}
		vfPopulate(reflect.ValueOf(&msg.Header).Elem(), sh, pfx+"hdr", false)
		msg.Header.BatchCount = 1
		msg.BatchItem = []RequestBatchItem{{Operation: op, RequestPayload: pl}}
		return msg, pl
	}
	pl := newResponsePayload(op)
	vfPopulate(reflect.ValueOf(pl).Elem(), sh, pfx+"pl", false)
	msg := &ResponseMessage{}
	vfPopulate(reflect.ValueOf(&msg.Header).Elem(), sh, pfx+"hdr", false)
	msg.Header.BatchCount = 1
	msg.BatchItem = []ResponseBatchItem{{Operation: op, ResponsePayload: pl}}
	return msg, pl
}

func c20Decode(b []byte, dir int) (any, error) {
	in := append([]byte(nil), b...)
	if dir == 0 {
		var m RequestMessage
		err := ttlv.UnmarshalTTLV(in, &m)
		return &m, err
	}
	var m ResponseMessage
	err := ttlv.UnmarshalTTLV(in, &m)
	return &m, err
}

// VerifC20_Order: message B (operation opB, direction dirB, version vB) encoded
// and decoded in a fresh process state gives the same bytes/value as after
// message A (opA, dirA, vA) was processed first on a reused, cleared encoder with
// warm plan caches, and as after being processed a second time.
func VerifC20_Order(opA, dirA, vA, opB, dirB, vB int) {
	msgB, plB := c20Message(opB, dirB, vB, "b.")
	// fresh process state
	ttlv.VerifResetPlanCaches()
	cold := append([]byte(nil), ttlv.MarshalTTLV(msgB)...)
	tagPl := TagRequestPayload
	if dirB == 1 {
		tagPl = TagResponsePayload
	}
	encP := ttlv.NewTTLVEncoder()
	encP.TagAny(tagPl, plB)
	coldPayload := append([]byte(nil), encP.Bytes()...)
	decCold, errCold := c20Decode(cold, dirB)
	// a header-less value with version-gated fields, through the package-level
	// function (no version is in force for it, whatever was marshalled before)
	var cp CryptographicParameters
	vfPopulate(reflect.ValueOf(&cp).Elem(), vfShapeOf(0, 4), "cp", false)
	coldBare := append([]byte(nil), ttlv.MarshalTTLV(&cp)...)
	// history: A first, on a reused encoder, caches cold at the start
	ttlv.VerifResetPlanCaches()
	msgA, _ := c20Message(opA, dirA, vA, "a.")
	enc := ttlv.NewTTLVEncoder()
	enc.Any(msgA)
	wireA := append([]byte(nil), enc.Bytes()...)
	_, _ = c20Decode(wireA, dirA)
	enc.Clear()
	enc.Any(msgB)
	verifAssert("message B after A on a reused encoder: same bytes as fresh", verifBytesEq(enc.Bytes(), cold))
	enc.Clear()
	enc.TagAny(tagPl, plB)
	verifAssert("bare payload after a message on a reused encoder: no version leaks", verifBytesEq(enc.Bytes(), coldPayload))
	_ = ttlv.MarshalTTLV(msgA)
	verifAssert("header-less value after a message through MarshalTTLV: same bytes as before any message", verifBytesEq(ttlv.MarshalTTLV(&cp), coldBare))
	warm := ttlv.MarshalTTLV(msgB)
	verifAssert("warm caches: same bytes as fresh", verifBytesEq(warm, cold))
	decWarm, errWarm := c20Decode(cold, dirB)
	verifAssert("decode: same outcome cold and warm", (errCold == nil) == (errWarm == nil))
	if errCold == nil && errWarm == nil {
		verifAssert("decode: same value cold and warm", vfEqual(reflect.ValueOf(decCold).Elem(), reflect.ValueOf(decWarm).Elem()))
	}
}

// VerifC20_Confinement: while one message is encoded and decoded, every store
// goes to objects allocated by the call or to the plan caches — never to
// package-level state or to the message being encoded.
func VerifC20_Confinement(op, dir, minor int) {
	msg, _ := c20Message(op, dir, minor, "m.")
	ttlv.VerifResetPlanCaches()
	verifWriteWatch()
	wire := ttlv.MarshalTTLV(msg)
	verifAssert("encoding writes nothing outside the call", verifForeignWrites() == 0)
	in := append([]byte(nil), wire...)
	verifWriteWatch()
	_, err := c20Decode(in, dir)
	verifAssert("decodes", err == nil)
	verifAssert("decoding writes nothing outside the call", verifForeignWrites() == 0)
}

// VerifC20_Concurrent: two goroutines encode (and decode) two messages at the
// same time from a cold process state (the lazily built plans are constructed
// under contention); results equal those computed sequentially.
func VerifC20_Concurrent(opA, dirA, opB, dirB int) {
	msgA, _ := c20Message(opA, dirA, 4, "a.")
	msgB, _ := c20Message(opB, dirB, 2, "b.")
	ttlv.VerifResetPlanCaches()
	seqA := append([]byte(nil), ttlv.MarshalTTLV(msgA)...)
	seqB := append([]byte(nil), ttlv.MarshalTTLV(msgB)...)
	ttlv.VerifResetPlanCaches()
	var conA, conB []byte
	var errA, errB error
	doneA, doneB := false, false
	go func() {
		conA = ttlv.MarshalTTLV(msgA)
		_, errA = c20Decode(conA, dirA)
		doneA = true
	}()
	go func() {
		conB = ttlv.MarshalTTLV(msgB)
		_, errB = c20Decode(conB, dirB)
		doneB = true
	}()
	verifBlock(func() bool { return doneA && doneB })
	verifAssert("A: concurrent result equals sequential", verifBytesEq(conA, seqA) && errA == nil)
	verifAssert("B: concurrent result equals sequential", verifBytesEq(conB, seqB) && errB == nil)
}

// VerifC20_Retained: what a Marshal function returned stays what it was while
// later calls marshal other messages (no buffer shared between results), for
// the three encodings, in both orders of a longer and a shorter message.
func VerifC20_Retained(enc, order int) {
	a, b := c02NestMessage(0), c02NestMessage(1)
	if order == 1 {
		a, b = b, a
	}
	marshal := func(m any) []byte {
		switch enc {
		case 0:
			return ttlv.MarshalTTLV(m)
		case 1:
			return ttlv.MarshalXML(m)
		}
		return ttlv.MarshalJSON(m)
	}
	first := marshal(a)
	snap := append([]byte(nil), first...)
	second := marshal(b)
	snap2 := append([]byte(nil), second...)
	third := marshal(a)
	verifAssert("an earlier result is not changed by later calls", verifBytesEq(first, snap) && verifBytesEq(second, snap2))
	verifAssert("same message, same bytes", verifBytesEq(third, snap))
}
