package kmip

// C05 — message elements are gated by the protocol version in the header.

import (
	"reflect"

	"github.com/ovh/kmip-go/ttlv"
)

// c05Pinned: first protocol minor version (1.x) of every version-dependent
// field, written from the KMIP 1.1-1.4 specifications' change lists (not derived
// from the struct annotations).
type c05Field struct {
	st, field string
	minor     int
}

var c05Pinned = []c05Field{
	{"Authentication", "AdditionalCredential", 2},
	{"CryptographicParameters", "DigitalSignatureAlgorithm", 2},
	{"CryptographicParameters", "CryptographicAlgorithm", 2},
	{"CryptographicParameters", "RandomIV", 2},
	{"CryptographicParameters", "IVLength", 2},
	{"CryptographicParameters", "TagLength", 2},
	{"CryptographicParameters", "FixedFieldLength", 2},
	{"CryptographicParameters", "InvocationFieldLength", 2},
	{"CryptographicParameters", "CounterLength", 2},
	{"CryptographicParameters", "InitialCounterValue", 2},
	{"CryptographicParameters", "SaltLength", 4},
	{"CryptographicParameters", "MaskGenerator", 4},
	{"CryptographicParameters", "MaskGeneratorHashingAlgorithm", 4},
	{"CryptographicParameters", "PSource", 4},
	{"CryptographicParameters", "TrailerField", 4},
	{"KeyWrappingSpecification", "EncodingOption", 1},
	{"Digest", "KeyFormatType", 1},
	{"CapabilityInformation", "BatchUndoCapability", 4},
	{"CapabilityInformation", "BatchContinueCapability", 4},
	{"KeyWrappingData", "EncodingOption", 1},
	{"RequestHeader", "ClientCorrelationValue", 4},
	{"RequestHeader", "ServerCorrelationValue", 4},
	{"RequestHeader", "AttestationCapableIndicator", 2},
	{"RequestHeader", "AttestationType", 2},
	{"ResponseHeader", "Nonce", 2},
	{"ResponseHeader", "AttestationType", 2},
	{"ResponseHeader", "ClientCorrelationValue", 4},
	{"ResponseHeader", "ServerCorrelationValue", 4},
	{"EncryptRequestPayload", "CorrelationValue", 3},
	{"EncryptRequestPayload", "InitIndicator", 3},
	{"EncryptRequestPayload", "FinalIndicator", 3},
	{"EncryptRequestPayload", "AuthenticatedEncryptionAdditionalData", 4},
	{"EncryptResponsePayload", "CorrelationValue", 3},
	{"EncryptResponsePayload", "AuthenticatedEncryptionTag", 4},
	{"DecryptRequestPayload", "CorrelationValue", 3},
	{"DecryptRequestPayload", "InitIndicator", 3},
	{"DecryptRequestPayload", "FinalIndicator", 3},
	{"DecryptRequestPayload", "AuthenticatedEncryptionAdditionalData", 4},
	{"DecryptRequestPayload", "AuthenticatedEncryptionTag", 4},
	{"DecryptResponsePayload", "CorrelationValue", 3},
	{"GetRequestPayload", "KeyWrapType", 4},
	{"LocateRequestPayload", "OffsetItems", 3},
	{"LocateRequestPayload", "ObjectGroupMember", 1},
	{"LocateResponsePayload", "LocatedItems", 3},
	{"QueryResponsePayload", "ExtensionInformation", 1},
	{"QueryResponsePayload", "AttestationType", 2},
	{"QueryResponsePayload", "RNGParameters", 3},
	{"QueryResponsePayload", "ProfileInformation", 3},
	{"QueryResponsePayload", "ValidationInformation", 3},
	{"QueryResponsePayload", "CapabilityInformation", 3},
	{"QueryResponsePayload", "ClientRegistrationMethod", 3},
	{"SignRequestPayload", "DigestedData", 4},
	{"SignRequestPayload", "CorrelationValue", 3},
	{"SignRequestPayload", "InitIndicator", 3},
	{"SignRequestPayload", "FinalIndicator", 3},
	{"SignResponsePayload", "CorrelationValue", 3},
	{"SignatureVerifyRequestPayload", "DigestedData", 4},
	{"SignatureVerifyRequestPayload", "CorrelationValue", 3},
	{"SignatureVerifyRequestPayload", "InitIndicator", 3},
	{"SignatureVerifyRequestPayload", "FinalIndicator", 3},
	{"SignatureVerifyResponsePayload", "CorrelationValue", 3},
}

func c05PinnedMinor(st, field string) int {
	for _, f := range c05Pinned {
		if f.st == st && f.field == field {
			return f.minor
		}
	}
	return 0
}

// c05Find walks the populated value v looking for the first struct of type
// name st; it returns the addressable field value and the highest pinned intro
// version of the fields on the way (a gated parent hides its children).
func c05Find(v reflect.Value, st, field string, parentMinor int, depth int) (reflect.Value, int, bool) {
	return c05FindA(v, st, field, parentMinor, depth, true)
}

func c05FindA(v reflect.Value, st, field string, parentMinor int, depth int, needAddr bool) (reflect.Value, int, bool) {
	if depth > 12 {
		return reflect.Value{}, 0, false
	}
	switch v.Kind() {
	case reflect.Pointer, reflect.Interface:
		if v.IsNil() {
			return reflect.Value{}, 0, false
		}
		return c05FindA(v.Elem(), st, field, parentMinor, depth+1, needAddr)
	case reflect.Slice:
		if v.Type().Elem().Kind() == reflect.Uint8 {
			return reflect.Value{}, 0, false
		}
		for i := 0; i < v.Len(); i++ {
			if f, m, ok := c05FindA(v.Index(i), st, field, parentMinor, depth+1, needAddr); ok {
				return f, m, true
			}
		}
	case reflect.Struct:
		t := v.Type()
		if t == vfTimeT || t == vfBigT {
			return reflect.Value{}, 0, false
		}
		if t.Name() == st && (v.CanAddr() || !needAddr) {
			f := v.FieldByName(field)
			if f.IsValid() {
				return f, parentMinor, true
			}
		}
		for i := 0; i < t.NumField(); i++ {
			if !t.Field(i).IsExported() {
				continue
			}
			pm := parentMinor
			if m := c05PinnedMinor(t.Name(), t.Field(i).Name); m > pm {
				pm = m
			}
			if f, m, ok := c05FindA(v.Field(i), st, field, pm, depth+1, needAddr); ok {
				return f, m, true
			}
		}
	}
	return reflect.Value{}, 0, false
}

func c05TagOf(name string) int {
	for tag, n := range tagNames {
		if n == name {
			return tag
		}
	}
	return 0
}

// reference item walk (KMIP 1.4 §9.1): number of items with the given tag.
func c05Count(b []byte, tag int) int {
	n := 0
	for len(b) >= 8 {
		t := int(b[0])<<16 | int(b[1])<<8 | int(b[2])
		l := int(b[4])<<24 | int(b[5])<<16 | int(b[6])<<8 | int(b[7])
		padded := (l + 7) / 8 * 8
		if len(b)-8 < padded {
			return -1
		}
		if t == tag {
			n++
		}
		if b[3] == 1 {
			k := c05Count(b[8:8+l], tag)
			if k < 0 {
				return -1
			}
			n += k
		}
		b = b[8+padded:]
	}
	return n
}

var c05AttrCopy reflect.Value

type c05Msg struct {
	req  *RequestMessage
	resp *ResponseMessage
}

func (m c05Msg) root() reflect.Value {
	if m.req != nil {
		return reflect.ValueOf(m.req).Elem()
	}
	return reflect.ValueOf(m.resp).Elem()
}

func (m c05Msg) setVersion(major, minor int32) {
	if m.req != nil {
		m.req.Header.ProtocolVersion = ProtocolVersion{major, minor}
	} else {
		m.resp.Header.ProtocolVersion = ProtocolVersion{major, minor}
	}
}

func (m c05Msg) encode() []byte {
	if m.req != nil {
		return ttlv.MarshalTTLV(m.req)
	}
	return ttlv.MarshalTTLV(m.resp)
}

// c05Build constructs candidate message number cand (request/response of each
// registered operation) fully populated regardless of version annotations.
func c05Build(cand int, wrapped bool, attrIdx int) c05Msg {
	ops := vfOperations()
	sh := vfShapeOf(0, 4)
	sh.noGate = true
	sh.wrapped = wrapped
	sh.objIdx, sh.fmtIdx = 1, 0
	if attrIdx >= 0 {
		sh.attrIdx = attrIdx
	}
	op := ops[cand/2]
	if cand%2 == 0 {
		pl := newRequestPayload(op)
		vfPopulate(reflect.ValueOf(pl).Elem(), sh, "pl", false)
		msg := &RequestMessage{}
		vfPopulate(reflect.ValueOf(&msg.Header).Elem(), sh, "hdr", false)
		msg.Header.BatchCount = 1
		msg.BatchItem = []RequestBatchItem{{Operation: op, RequestPayload: pl}}
		return c05Msg{req: msg}
	}
	pl := newResponsePayload(op)
	vfPopulate(reflect.ValueOf(pl).Elem(), sh, "pl", false)
	msg := &ResponseMessage{}
	vfPopulate(reflect.ValueOf(&msg.Header).Elem(), sh, "hdr", false)
	msg.Header.BatchCount = 1
	msg.BatchItem = []ResponseBatchItem{{Operation: op, ResponsePayload: pl}}
	return c05Msg{resp: msg}
}

// c05StaticHas: does type t statically contain a struct named st (through
// pointers, slices and struct fields)?
func c05StaticHas(t reflect.Type, st string, depth int) bool {
	if depth > 10 {
		return false
	}
	switch t.Kind() {
	case reflect.Pointer, reflect.Slice:
		return c05StaticHas(t.Elem(), st, depth+1)
	case reflect.Struct:
		if t.Name() == st {
			return true
		}
		if t == vfTimeT || t == vfBigT {
			return false
		}
		for i := 0; i < t.NumField(); i++ {
			if t.Field(i).IsExported() && c05StaticHas(t.Field(i).Type, st, depth+1) {
				return true
			}
		}
	}
	return false
}

// c05Candidate picks the message that holds struct st: (candidate, wrapped key
// value shape, attribute index or -1).
func c05Candidate(st string) (int, bool, int) {
	if c05StaticHas(reflect.TypeFor[RequestHeader](), st, 0) {
		return 0, false, -1
	}
	if c05StaticHas(reflect.TypeFor[ResponseHeader](), st, 0) {
		return 1, false, -1
	}
	ops := vfOperations()
	for i, op := range ops {
		rq := reflect.TypeOf(newRequestPayload(op))
		if c05StaticHas(rq, st, 0) {
			return 2 * i, false, -1
		}
		rs := reflect.TypeOf(newResponsePayload(op))
		if c05StaticHas(rs, st, 0) {
			return 2*i + 1, false, -1
		}
	}
	// reachable only through an interface: key blocks of objects (Register
	// request) and attribute values (AddAttribute request)
	if c05StaticHas(reflect.TypeFor[KeyBlock](), st, 0) {
		for i, op := range ops {
			if op == OperationRegister {
				return 2 * i, true, -1
			}
		}
	}
	for ai, name := range AllAttributeNames {
		if t, ok := attrTypes[name]; ok && c05StaticHas(t, st, 0) {
			for i, op := range ops {
				if op == OperationAddAttribute {
					return 2 * i, false, ai
				}
			}
		}
	}
	return -1, false, -1
}

// VerifC05_Encode: pinned field number idx inside a complete message; the
// header's protocol version is an arbitrary (major, minor).
func VerifC05_Encode(idx int) {
	if idx >= len(c05Pinned) {
		return
	}
	pf := c05Pinned[idx]
	cand, wrapped, attrIdx := c05Candidate(pf.st)
	verifAssert("a message holding the structure exists", cand >= 0)
	if cand < 0 {
		return
	}
	with := c05Build(cand, wrapped, attrIdx)
	var fld reflect.Value
	var parentMinor int
	var ok bool
	var attrVal reflect.Value // attribute value held by value in an interface
	if attrIdx >= 0 {
		// the structure is an attribute value (held by value in an `any`): work on an
		// addressable copy and store it back
		av, _, okA := c05Find(with.root(), "Attribute", "AttributeValue", 0, 0)
		verifAssert("the attribute exists in the populated message", okA && !av.IsNil())
		if !okA || av.IsNil() {
			return
		}
		attrVal = av
		cp := reflect.New(av.Elem().Type())
		cp.Elem().Set(av.Elem())
		fld, parentMinor, ok = c05Find(cp.Elem(), pf.st, pf.field, 0, 0)
		defer func() {}()
		c05AttrCopy = cp
	} else {
		fld, parentMinor, ok = c05Find(with.root(), pf.st, pf.field, 0, 0)
	}
	verifAssert("the field exists in the populated message", ok)
	if !ok {
		return
	}
	tag := c05TagOf(pf.field)
	if tag == 0 {
		// no tag of that name: the codec falls back to the tag of the (element) type
		ft := fld.Type()
		for ft.Kind() == reflect.Pointer || ft.Kind() == reflect.Slice {
			ft = ft.Elem()
		}
		tag = c05TagOf(ft.Name())
	}
	verifAssert("the field's tag is registered", tag != 0)
	major := verifNondetInt32("major")
	minor := verifNondetInt32("minor")
	with.setVersion(major, minor)
	eWith := with.encode()
	with.setVersion(1, 4)
	eWith14 := with.encode()
	fld.SetZero()
	if attrIdx >= 0 {
		attrVal.Set(c05AttrCopy.Elem())
	}
	with.setVersion(major, minor)
	eWithout := with.encode()
	with.setVersion(1, 4)
	eWithout14 := with.encode()

	intro := pf.minor
	if parentMinor > intro {
		intro = parentMinor
	}
	allowed := major > 1 || major == 1 && int(minor) >= intro
	size14 := len(eWith14) - len(eWithout14)
	cnt14 := c05Count(eWith14, tag) - c05Count(eWithout14, tag)
	verifAssert("the populated field is encoded at 1.4", size14 > 0 && cnt14 > 0)
	d := len(eWith) - len(eWithout)
	c := c05Count(eWith, tag) - c05Count(eWithout, tag)
	if allowed {
		verifReach("allowed")
		// a structure-valued element may itself contain later-version children, so at
		// V it can be smaller than at 1.4 — but it is there, once per populated value
		verifAssert("valid at V: the element is present", d > 0 && d <= size14 && c == cnt14)
		if int(minor) >= 4 || major > 1 {
			verifAssert("at 1.4 and later: complete", d == size14)
		}
	} else {
		verifReach("gated")
		verifAssert("introduced after V: the element is absent", d == 0 && c == 0)
	}
}

// VerifC05_Decode: bytes containing the field (encoded at 1.4) decode at every
// header version and return the field.
func VerifC05_Decode(idx int) {
	if idx >= len(c05Pinned) {
		return
	}
	pf := c05Pinned[idx]
	cand, wrapped, attrIdx := c05Candidate(pf.st)
	if cand < 0 {
		return
	}
	m := c05Build(cand, wrapped, attrIdx)
	fld, _, ok := c05FindA(m.root(), pf.st, pf.field, 0, 0, false)
	verifAssert("the field exists in the populated message", ok)
	if !ok {
		return
	}
	m.setVersion(1, 4)
	b := m.encode()
	// overwrite the header's version numbers (first two integers of the message)
	major := verifNondetInt32("major")
	minor := verifNondetInt32("minor")
	// layout: message(8) header(8) version(8) major item(8+8) minor item(8+8)
	verifAssert("layout: major item", b[24] == 0x42 && b[25] == 0x00 && b[26] == 0x6A && b[27] == 2)
	verifAssert("layout: minor item", b[40] == 0x42 && b[41] == 0x00 && b[42] == 0x6B && b[43] == 2)
	b[32], b[33], b[34], b[35] = byte(major>>24), byte(major>>16), byte(major>>8), byte(major)
	b[48], b[49], b[50], b[51] = byte(minor>>24), byte(minor>>16), byte(minor>>8), byte(minor)
	var got reflect.Value
	var err error
	if m.req != nil {
		var d RequestMessage
		err = ttlv.UnmarshalTTLV(b, &d)
		got = reflect.ValueOf(&d).Elem()
	} else {
		var d ResponseMessage
		err = ttlv.UnmarshalTTLV(b, &d)
		got = reflect.ValueOf(&d).Elem()
	}
	verifAssert("later-version element is accepted at every version", err == nil)
	if err != nil {
		return
	}
	gf, _, ok2 := c05FindA(got, pf.st, pf.field, 0, 0, false)
	verifAssert("decoded message has the structure", ok2)
	if ok2 {
		verifAssert("decoded field equals the encoded one", vfEqual(fld, gf))
	}
}

// VerifC05_Batch: the version that gates a message is the one in its header,
// whatever other ProtocolVersion elements the message carries and wherever they
// stand: a Discover Versions item listing version 1.w precedes (order 0) or
// follows (order 1) an item with version-gated fields, in a message whose header
// says 1.v (v, w symbolic). dir 0: requests (Get with KeyWrapType, 1.4; Locate with OffsetItems,
// 1.3); dir 1: responses (Locate with LocatedItems, 1.3).
func VerifC05_Batch(dir, order int) {
	// both versions symbolic: every pair of minors 0..9 (5..9: later than any known)
	v32, w32 := verifNondetInt32("v"), verifNondetInt32("w")
	verifAssume(v32 >= 0 && v32 <= 9 && w32 >= 0 && w32 <= 9)
	v := int(v32)
	hv := ProtocolVersion{ProtocolVersionMajor: 1, ProtocolVersionMinor: v32}
	lv := []ProtocolVersion{{ProtocolVersionMajor: 1, ProtocolVersionMinor: w32}}
	var msg any
	type gated struct {
		tag, minor int
	}
	var fields []gated
	if dir == 0 {
		dv := newRequestPayload(OperationDiscoverVersions)
		reflect.ValueOf(dv).Elem().FieldByName("ProtocolVersion").Set(reflect.ValueOf(lv))
		get := newRequestPayload(OperationGet)
		reflect.ValueOf(get).Elem().FieldByName("UniqueIdentifier").SetString("id")
		reflect.ValueOf(get).Elem().FieldByName("KeyWrapType").SetUint(uint64(AsRegistered))
		loc := newRequestPayload(OperationLocate)
		reflect.ValueOf(loc).Elem().FieldByName("OffsetItems").SetInt(3)
		fields = []gated{{TagKeyWrapType, 4}, {TagOffsetItems, 3}}
		m := &RequestMessage{}
		m.Header.ProtocolVersion = hv
		items := []RequestBatchItem{{Operation: OperationGet, RequestPayload: get}, {Operation: OperationLocate, RequestPayload: loc}}
		d := RequestBatchItem{Operation: OperationDiscoverVersions, RequestPayload: dv}
		if order == 0 {
			items = append([]RequestBatchItem{d}, items...)
		} else {
			items = append(items, d)
		}
		m.BatchItem = items
		m.Header.BatchCount = int32(len(items))
		msg = m
	} else {
		dv := newResponsePayload(OperationDiscoverVersions)
		reflect.ValueOf(dv).Elem().FieldByName("ProtocolVersion").Set(reflect.ValueOf(lv))
		loc := newResponsePayload(OperationLocate)
		n := int32(2)
		reflect.ValueOf(loc).Elem().FieldByName("LocatedItems").Set(reflect.ValueOf(&n))
		fields = []gated{{TagLocatedItems, 3}}
		m := &ResponseMessage{}
		m.Header.ProtocolVersion = hv
		items := []ResponseBatchItem{{Operation: OperationLocate, ResultStatus: ResultStatusSuccess, ResponsePayload: loc}}
		d := ResponseBatchItem{Operation: OperationDiscoverVersions, ResultStatus: ResultStatusSuccess, ResponsePayload: dv}
		if order == 0 {
			items = append([]ResponseBatchItem{d}, items...)
		} else {
			items = append(items, d)
		}
		m.BatchItem = items
		m.Header.BatchCount = int32(len(items))
		msg = m
	}
	wire := ttlv.MarshalTTLV(msg)
	for _, f := range fields {
		n := c05Count(wire, f.tag)
		if v >= f.minor {
			verifAssert("valid at the header's version: the element is present", n == 1)
		} else {
			verifAssert("introduced after the header's version: the element is absent", n == 0)
		}
	}
	// decoding what a 1.4 peer would send under the same header: gated the same way
	full := msg
	var back any
	var err error
	if dir == 0 {
		var m RequestMessage
		err = ttlv.UnmarshalTTLV(wire, &m)
		back = &m
	} else {
		var m ResponseMessage
		err = ttlv.UnmarshalTTLV(wire, &m)
		back = &m
	}
	_ = full
	verifAssert("the encoding decodes", err == nil)
	if err == nil {
		verifAssert("re-encoding the decoded message gives the same bytes", verifBytesEq(wire, ttlv.MarshalTTLV(back)))
	}
}
