package payloads

// C14 — accessors of the Get response are total.

import "github.com/ovh/kmip-go"

func VerifC14_GetAccessors(objIdx, variant, fmtIdx int) {
	obj := kmip.VerifBuildObject(objIdx, variant, fmtIdx)
	pl := &GetResponsePayload{ObjectType: kmip.ObjectType(verifNondetUint32("objtype")), UniqueIdentifier: "id", Object: obj}
	if verifChoose("consistent", 2) == 0 {
		pl.ObjectType = obj.ObjectType()
	}
	_, _ = pl.SecretString()
	_, _ = pl.Secret()
	_, _ = pl.SymmetricKey()
	_, _ = pl.X509Certificate()
	_, _ = pl.PemCertificate()
	_, _ = pl.RsaPrivateKey()
	_, _ = pl.EcdsaPrivateKey()
	_, _ = pl.PrivateKey()
	_, _ = pl.PemPrivateKey()
	_, _ = pl.RsaPublicKey()
	_, _ = pl.EcdsaPublicKey()
	_, _ = pl.PublicKey()
	_, _ = pl.PemPublicKey()
	verifReach("all accessors returned")
}

func VerifC14_GetAccessorsNilObject() {
	pl := &GetResponsePayload{ObjectType: kmip.ObjectType(verifNondetUint32("objtype"))}
	_, _ = pl.SecretString()
	_, _ = pl.Secret()
	_, _ = pl.SymmetricKey()
	_, _ = pl.X509Certificate()
	_, _ = pl.PemCertificate()
	_, _ = pl.RsaPrivateKey()
	_, _ = pl.EcdsaPrivateKey()
	_, _ = pl.PrivateKey()
	_, _ = pl.PemPrivateKey()
	_, _ = pl.RsaPublicKey()
	_, _ = pl.EcdsaPublicKey()
	_, _ = pl.PublicKey()
	_, _ = pl.PemPublicKey()
	verifReach("all accessors returned")
}
